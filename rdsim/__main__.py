import sys
from .cli import main
sys.exit(main(sys.argv[1:]))
