"""SI factors, typed in from the SI definitions (never imported from strengths.units)."""
N_A = 6.02214076e23

SPACE = {"km": 1e3, "m": 1.0, "dm": 1e-1, "cm": 1e-2, "mm": 1e-3, "dmm": 1e-4, "cmm": 1e-5,
         "µm": 1e-6, "nm": 1e-9, "pm": 1e-12, "fm": 1e-15}
TIME = {"h": 3600.0, "min": 60.0, "s": 1.0, "ds": 1e-1, "cs": 1e-2, "ms": 1e-3, "µs": 1e-6,
        "ns": 1e-9, "ps": 1e-12, "fs": 1e-15}
QUANTITY = {"kmol": 1e3 * N_A, "mol": N_A, "dmol": 1e-1 * N_A, "cmol": 1e-2 * N_A, "mmol": 1e-3 * N_A,
            "µmol": 1e-6 * N_A, "nmol": 1e-9 * N_A, "pmol": 1e-12 * N_A, "fmol": 1e-15 * N_A,
            "molecule": 1.0}
SPACE_L = list(SPACE)
TIME_L = list(TIME)
QUANTITY_L = list(QUANTITY)

# litre family: symbol -> cube of which length unit ; molar family: symbol -> (amount unit, per dm3)
LITRE = {"kL": "m", "L": "dm", "mL": "cm", "µL": "mm", "nL": "dmm", "pL": "cmm", "fL": "µm"}
MOLAR = {"kM": "kmol", "M": "mol", "dM": "dmol", "cM": "cmol", "mM": "mmol", "µM": "µmol",
         "nM": "nmol", "pM": "pmol", "fM": "fmol"}

DEFAULT_US = {"space": "µm", "time": "s", "quantity": "molecule"}

# dimension vectors (space, time, quantity)
DIM_TIME = (0, 1, 0)
DIM_QUANTITY = (0, 0, 1)
DIM_VOLUME = (3, 0, 0)
DIM_SURFACE = (2, 0, 0)
DIM_LENGTH = (1, 0, 0)
DIM_DIFF = (2, -1, 0)
DIM_DENSITY = (-3, 0, 1)
DIM_RATE = (0, -1, 1)


def dim_k(order):
    """dimension of a rate constant of the given order: amount^(1-n) length^(3n-3) / time"""
    return (3 * order - 3, -1, 1 - order)


def factor(us, dim):
    """SI value of one unit of dimension `dim` in units system `us` (amounts counted in molecules)."""
    return (SPACE[us["space"]] ** dim[0]) * (TIME[us["time"]] ** dim[1]) * (QUANTITY[us["quantity"]] ** dim[2])


def to_units(si_value, us, dim):
    return si_value / factor(us, dim)


def from_units(value, us, dim):
    return value * factor(us, dim)


def unit_string(us, dim, style=0):
    """a unit expression of the documented grammar for (us, dim). style 0: a.b-1 ; style 1: a/b where possible."""
    parts = []
    for sym, e in ((us["space"], dim[0]), (us["time"], dim[1]), (us["quantity"], dim[2])):
        if e != 0:
            parts.append((sym, e))
    if not parts:
        return ""
    if style == 1:
        pos = [(s, e) for s, e in parts if e > 0]
        neg = [(s, e) for s, e in parts if e < 0]
        if pos:
            out = ".".join(s + (str(e) if e != 1 else "") for s, e in pos)
            for s, e in neg:
                out += "/" + s + (str(-e) if e != -1 else "")
            return out
    return ".".join(s + (str(e) if e != 1 else "") for s, e in parts)
