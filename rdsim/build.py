"""Builds the native engine from /repo's working tree (plain and sanitizer variants), cached by source hash."""
import hashlib
import os
import subprocess
import sys
import time

REPO = os.environ.get("RDSIM_REPO", "/repo")
SRC = os.path.join(REPO, "src/strengths/engines/strengths_engine/src")
WORK = os.environ.get("RDSIM_WORK", "/verif/.work")


def source_hash():
    h = hashlib.sha256()
    for fn in sorted(os.listdir(SRC)):
        p = os.path.join(SRC, fn)
        if os.path.isfile(p):
            h.update(fn.encode())
            h.update(b"\0")
            h.update(open(p, "rb").read())
            h.update(b"\0")
    return h.hexdigest()[:20]


FLAGS = {
    "plain": ["g++", "-O2", "-g", "-std=c++11", "-shared", "-fPIC"],
    "san": ["clang++", "-O1", "-g", "-std=c++11", "-shared", "-fPIC",
            "-fsanitize=address,undefined", "-fno-sanitize-recover=undefined",
            "-fno-omit-frame-pointer", "-D_GLIBCXX_ASSERTIONS"],
}


def asan_runtime():
    out = subprocess.run(["clang", "-print-file-name=libclang_rt.asan-x86_64.so"], capture_output=True, text=True,
                         timeout=60)
    return out.stdout.strip()


def _prune(keep=4):
    root = os.path.join(WORK, "build")
    try:
        dirs = [os.path.join(root, d) for d in os.listdir(root)]
    except FileNotFoundError:
        return
    dirs = [d for d in dirs if os.path.isdir(d)]
    dirs.sort(key=lambda d: os.path.getmtime(d), reverse=True)
    now = time.time()
    for d in dirs[keep:]:
        if now - os.path.getmtime(d) < 4 * 3600:
            continue        # possibly still loaded by children of a long run started from that tree
        for f in os.listdir(d):
            try:
                os.unlink(os.path.join(d, f))
            except OSError:
                pass
        try:
            os.rmdir(d)
        except OSError:
            pass


def build(kind="plain", quiet=True):
    """returns the path of the shared library for the current working tree."""
    h = source_hash()
    d = os.path.join(WORK, "build", h)
    os.makedirs(d, exist_ok=True)
    out = os.path.join(d, kind + ".so")
    if os.path.exists(out):
        os.utime(d)
        return out
    tmp = out + ".tmp%d" % os.getpid()
    cmd = ["timeout", "-k", "5", "300"] + FLAGS[kind] + ["-I", SRC, os.path.join(SRC, "engine.cpp"), "-o", tmp]
    t0 = time.time()
    r = subprocess.run(cmd, capture_output=True, text=True)
    if r.returncode != 0:
        sys.stderr.write("BUILD FAILED (%s)\n%s\n%s\n" % (kind, r.stdout[-4000:], r.stderr[-4000:]))
        raise RuntimeError("engine build failed: " + kind)
    os.replace(tmp, out)
    if not quiet:
        print("built %s in %.1fs -> %s" % (kind, time.time() - t0, out))
    _prune()
    return out


if __name__ == "__main__":
    for k in sys.argv[1:] or ["plain"]:
        print(build(k, quiet=False))
