"""phys(obj): physical content of strengths objects in SI, read from attributes with my own SI factors.
Used inside the child for C12 (file round trips). Everything returned is plain JSON."""
from . import si


def us_dict(us):
    return {"space": us["space"], "time": us["time"], "quantity": us["quantity"]}


def uv_si(uv):
    """UnitValue -> (SI value, dim tuple)"""
    sysd = us_dict(uv.units.sys)
    dim = (int(uv.units.dim["space"]), int(uv.units.dim["time"]), int(uv.units.dim["quantity"]))
    return float(uv.value) * si.factor(sysd, dim), list(dim)


def ua_si(ua):
    sysd = us_dict(ua.units.sys)
    dim = (int(ua.units.dim["space"]), int(ua.units.dim["time"]), int(ua.units.dim["quantity"]))
    f = si.factor(sysd, dim)
    return [float(v) * f for v in ua.value], list(dim)


def envval(v, envs):
    """per-environment resolution of a scalar-or-dict property: dict[env] -> dict['default'] -> 0"""
    out = []
    for e in envs:
        if isinstance(v, dict):
            if e in v:
                x = v[e]
            elif "default" in v:
                x = v["default"]
            else:
                x = None
        else:
            x = v
        if x is None:
            out.append([0.0, None])
        elif isinstance(x, (bool, int, float)):
            out.append([float(x), None])
        else:
            s, d = uv_si(x)
            out.append([s, d])
    return out


def phys_network(n):
    envs = list(n.environments)
    return {
        "kind": "network",
        "environments": envs,
        "units": us_dict(n.units_system),
        "species": [{"label": s.label, "units": us_dict(s.units_system), "D": envval(s.D, envs),
                     "density": envval(s.density, envs),
                     "chstt": [int(bool(x[0])) for x in envval(s.chstt, envs)]} for s in n.species],
        "reactions": [{"label": r.label, "units": us_dict(r.units_system),
                       "sub": {k: int(v) for k, v in r.substrates.items() if int(v) != 0},
                       "prod": {k: int(v) for k, v in r.products.items() if int(v) != 0},
                       "kf": envval(r.kf, envs), "kr": envval(r.kr, envs)} for r in n.reactions],
    }


def phys_space(sp):
    tn = type(sp).__name__
    if tn == "RDGridSpace":
        v, d = uv_si(sp.cell_vol)
        return {"kind": "grid", "w": int(sp.w), "h": int(sp.h), "d": int(sp.d), "cell_env": [int(c) for c in sp.cell_env],
                "cell_vol": [v, d], "bc": dict(sp.get_boundary_conditions()), "units": us_dict(sp.units_system)}
    return {"kind": "graph", "units": us_dict(sp.units_system),
            "nodes": [{"vol": list(uv_si(n.volume)), "env": int(n.environment), "units": us_dict(n.units_system)}
                      for n in sp.nodes],
            "edges": [{"i": int(e.i), "j": int(e.j), "S": list(uv_si(e.surface)), "dist": list(uv_si(e.distance)),
                       "units": us_dict(e.units_system)} for e in sp.edges]}


def phys_system(s):
    st, d = ua_si(s.state)
    return {"kind": "system", "units": us_dict(s.units_system), "network": phys_network(s.network),
            "space": phys_space(s.space), "state": [st, d], "chemostats": [int(c) for c in s.chemostats]}


def phys_script(sc):
    ts, d = ua_si(sc.t_sample)
    tmax = list(uv_si(sc.t_max))     # the effective value ("default" = last requested time)
    return {"kind": "script", "units": us_dict(sc.units_system), "system": phys_system(sc.system), "t_sample": [ts, d],
            "time_step": list(uv_si(sc.time_step)), "t_max": tmax, "sampling_policy": sc.sampling_policy,
            "sampling_interval": list(uv_si(sc.sampling_interval)), "rng_seed": int(sc.rng_seed),
            "init_state_processing": sc.init_state_processing}


def phys_trajectory(tr):
    data, dd = ua_si(tr.data)
    t, td = ua_si(tr.t)
    cg = None if tr.cgmap is None else [int(c) for c in tr.cgmap]
    return {"kind": "trajectory", "script": phys_script(tr.script) if tr.script is not None else None,
            "system": phys_system(tr.system), "data": [data, dd], "t": [t, td],
            "engine_description": tr.engine_description, "engine_option": tr.engine_option, "cgmap": cg}


def phys(obj):
    tn = type(obj).__name__
    if tn == "RDNetwork":
        return phys_network(obj)
    if tn in ("RDGridSpace", "RDGraphSpace"):
        return phys_space(obj)
    if tn == "RDSystem":
        return phys_system(obj)
    if tn == "RDScript":
        return phys_script(obj)
    if tn == "RDTrajectory":
        return phys_trajectory(obj)
    raise TypeError(tn)


# ------------------------------------------------------------------------------------------------ comparison (parent side)
def diff(a, b, path="", rtol=1e-12, out=None):
    """list of differences between two phys trees (floats with rtol, everything else exact)"""
    if out is None:
        out = []
    if len(out) > 5:
        return out
    if isinstance(a, dict) and isinstance(b, dict):
        for k in sorted(set(a) | set(b)):
            if k not in a or k not in b:
                out.append("%s/%s: present on one side only" % (path, k))
            else:
                diff(a[k], b[k], path + "/" + str(k), rtol, out)
    elif isinstance(a, list) and isinstance(b, list):
        if len(a) != len(b):
            out.append("%s: lengths %d vs %d" % (path, len(a), len(b)))
        else:
            for i, (x, y) in enumerate(zip(a, b)):
                diff(x, y, "%s[%d]" % (path, i), rtol, out)
    elif isinstance(a, float) and isinstance(b, float):
        if a != a and b != b:
            pass        # not-a-number on both sides (a diverged deterministic run saved and read back) is the same content
        elif a != b and not (abs(a - b) <= rtol * max(abs(a), abs(b))):
            out.append("%s: %r vs %r" % (path, a, b))
    elif isinstance(a, bool) or isinstance(b, bool) or type(a) != type(b):
        if isinstance(a, (int, float)) and isinstance(b, (int, float)) and not isinstance(a, bool) and not isinstance(b, bool):
            if float(a) != float(b) and not (abs(a - b) <= rtol * max(abs(a), abs(b))):
                out.append("%s: %r vs %r" % (path, a, b))
        elif a != b:
            out.append("%s: %r vs %r" % (path, a, b))
    else:
        if a != b:
            out.append("%s: %r vs %r" % (path, a, b))
    return out
