"""rdsim -- deterministic simulation with fault injection for the strengths library.
See /verif/DESIGN.md."""
