"""One integer decides everything: SHA-256 derived sub-streams, used only through .random()/.getrandbits()."""
import hashlib
import math
import random


class Stream:
    __slots__ = ("r", "key")

    def __init__(self, *key):
        self.key = key
        h = hashlib.sha256(repr(key).encode("utf-8")).digest()
        self.r = random.Random(int.from_bytes(h[:16], "big"))

    def sub(self, *more):
        return Stream(*(self.key + more))

    def u(self):
        return self.r.random()

    def bits(self, k):
        return self.r.getrandbits(k)

    def chance(self, p):
        return self.r.random() < p

    def randint(self, a, b):
        """inclusive"""
        if b <= a:
            return a
        return a + min(int(self.r.random() * (b - a + 1)), b - a)

    def choice(self, seq):
        return seq[self.randint(0, len(seq) - 1)]

    def wchoice(self, pairs):
        """pairs: list of (item, weight)"""
        tot = sum(w for _, w in pairs)
        x = self.r.random() * tot
        acc = 0.0
        for it, w in pairs:
            acc += w
            if x < acc:
                return it
        return pairs[-1][0]

    def uniform(self, a, b):
        return a + (b - a) * self.r.random()

    def loguniform(self, a, b):
        return math.exp(self.uniform(math.log(a), math.log(b)))

    def shuffle(self, lst):
        lst = list(lst)
        for i in range(len(lst) - 1, 0, -1):
            j = self.randint(0, i)
            lst[i], lst[j] = lst[j], lst[i]
        return lst

    def sample(self, lst, k):
        return self.shuffle(lst)[:k]

    def subset(self, lst, p):
        return [x for x in lst if self.r.random() < p]
