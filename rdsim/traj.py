"""History extraction and history oracles shared by C01 C02 C03 C07 C09 C10.

Convention (enforced by the generators): inside an "observed episode" every action op (iterate / sample) is
immediately followed by an observe op, so the history is a sequence (action, observation)."""
import math

import numpy as np


def same(a, b):
    """bitwise equality of two float arrays (NaN-safe, distinguishes -0.0)"""
    return a.shape == b.shape and a.tobytes() == b.tobytes()

from . import si
from .world import LOOP_OPS


class Obs:
    __slots__ = ("t", "x", "ns")

    def __init__(self, t, x, ns):
        self.t = t
        self.x = x
        self.ns = ns


class Hist:
    """one observed episode"""

    def __init__(self):
        self.setup = None        # setup event
        self.obs0 = None         # observation right after setup
        self.actions = []        # list of (kind, ret or None, Obs)
        self.outputs = []        # output events (in order), with position in the action list
        self.problems = []       # structural problems (harness level)
        self.exc = []            # library exceptions


def expand_drive(plan, rets, cap):
    """replays the child's drive loop: returns the list of executed plan ops, in order"""
    out = []
    nloop = 0
    done = False
    k = 0
    ri = 0
    while True:
        o = plan[k % len(plan)]
        if o[0] in LOOP_OPS:
            if done or nloop >= cap:
                break
            if ri >= len(rets):
                break
            r = rets[ri]
            ri += 1
            nloop += 1
            out.append((o, r))
            if not r:
                done = True
        else:
            out.append((o, None))
        k += 1
        if done and k % len(plan) == 0:
            break
    return out


def extract(case, li, ei, res, ns, nc):
    """builds the Hist of episode ei of lifetime li from the recorded events"""
    h = Hist()
    ep = case["lifetimes"][li]["episodes"][ei]
    size = ns * nc
    evs = [ev for ev in res.events if ev["e"] == ei]
    evs.sort(key=lambda e: e["i"])
    pending = None   # action waiting for its observation

    def add_obs(t, xbytes, nsamp):
        nonlocal pending
        x = np.frombuffer(xbytes, dtype=np.float64).reshape(ns, nc).copy()
        o = Obs(t, x, nsamp)
        if pending is None:
            if h.obs0 is None:
                h.obs0 = o
            else:
                h.actions.append(("noop", None, o))
        else:
            h.actions.append((pending[0], pending[1], o))
            pending = None

    for ev in evs:
        if ev.get("skipped"):
            continue
        if "exc" in ev:
            h.exc.append(ev)
            continue
        op = ev["op"]
        if op == "setup":
            h.setup = ev
            h.obs0 = None
            h.actions = []
            h.outputs = []
            pending = None
        elif op == "observe":
            add_obs(ev["t"], ev["x"], ev["ns"])
        elif op in ("iterate", "iterate_n", "run"):
            if pending is not None:
                h.problems.append("action without observation before op %d" % ev["i"])
            if op == "iterate_n" and ep["ops"][ev["i"]][1] == 0:
                op = "iterate_n0"       # an empty batch: a loop call that performs no iteration
            pending = (op, ev["ret"])
        elif op == "sample":
            if pending is not None:
                h.problems.append("action without observation before op %d" % ev["i"])
            pending = ("sample", None)
        elif op in ("is_complete", "progress"):
            if pending is None:
                pending = (op, ev["ret"])
        elif op == "drive":
            plan = ep["ops"][ev["i"]][1]
            cap = ep["ops"][ev["i"]][2]
            seq = expand_drive(plan, ev["rets"], cap)
            obs_t = ev.get("obs_t", [])
            obs_n = ev.get("obs_n", [])
            ox = ev.get("obs_x", b"")
            ro = list(ev.get("ro", []))
            oi = 0
            for (o, r) in seq:
                if o[0] in ("is_complete", "progress"):
                    rv = ro.pop(0) if ro else None
                    if pending is None:
                        pending = (o[0], rv)
                    continue
                if o[0] == "observe":
                    if oi >= len(obs_t):
                        h.problems.append("drive: fewer observations than expected")
                        break
                    add_obs(obs_t[oi], ox[oi * 8 * size:(oi + 1) * 8 * size], obs_n[oi])
                    oi += 1
                elif o[0] in LOOP_OPS:
                    if pending is not None:
                        h.problems.append("drive: action without observation")
                    pending = (o[0], r)
                elif o[0] == "sample":
                    if pending is not None:
                        h.problems.append("drive: action without observation")
                    pending = ("sample", None)
            if oi != len(obs_t):
                h.problems.append("drive: %d observations recorded, %d consumed" % (len(obs_t), oi))
            h.hit_cap = (not ev["done"])
        elif op == "output":
            h.outputs.append((len(h.actions), ev))
    return h


# ------------------------------------------------------------------------------------------------ unit facts
def check_script_numbers(setup_ev, phys, viol, tag):
    """the time quantities handed to the engine equal the SI spec (independent conversion), rtol 1e-12"""
    sp = phys["sp"]
    eu = phys["eu"]
    ft = si.factor(eu, si.DIM_TIME)
    if "ts_e" not in setup_ev:
        return
    pairs = [("time_step", setup_ev["dt_e"] * ft, sp["dt"])]
    if sp["t_max"] is not None:
        pairs.append(("t_max", setup_ev["tmax_e"] * ft, sp["t_max"]))
    elif sp["t_sample"]:
        pairs.append(("t_max(default)", setup_ev["tmax_e"] * ft, sp["t_sample"][-1]))
    if sp["policy"] == "on_interval":
        pairs.append(("sampling_interval", setup_ev["interval_e"] * ft, sp["interval"]))
    if len(setup_ev["ts_e"]) != len(sp["t_sample"]):
        viol.append({"oracle": tag + ".script-numbers", "detail": "t_sample length %d vs %d" % (
            len(setup_ev["ts_e"]), len(sp["t_sample"]))})
    else:
        for a, b in zip(setup_ev["ts_e"], sp["t_sample"]):
            pairs.append(("t_sample", a * ft, b))
    for name, got, want in pairs:
        if abs(got - want) > 1e-12 * max(abs(want), abs(got)):
            viol.append({"oracle": tag + ".script-numbers",
                         "detail": "%s reaches the engine as %r s, the script says %r s" % (name, got, want)})
            break


# ------------------------------------------------------------------------------------------------ M-sampler
def sampler_oracle(h, phys, viol, stats, tag="C09", fixed_step=True):
    """the reference sampler fed with the observed step history must predict exactly the recorded samples"""
    st = h.setup
    if st is None or h.obs0 is None or "ts_e" not in st:
        return
    policy = phys["sp"]["policy"]
    ts = st["ts_e"]
    tmax = st["tmax_e"]
    itv = st["interval_e"]
    recs = []           # predicted records: (t, x)
    pos = 0
    last_k = -1.0
    armed = True
    complete = False

    def bad(msg, **kw):
        d = {"oracle": tag + ".sampler", "detail": msg}
        d.update(kw)
        viol.append(d)

    def policy_step(o):
        nonlocal pos, last_k, armed
        rec = False
        if policy == "on_t_sample":
            if pos < len(ts) and o.t >= ts[pos]:
                rec = True
            k = 0
            while pos < len(ts) and o.t >= ts[pos]:
                pos += 1
                k += 1
            if k > 1:
                stats["several_requests_in_one_step"] = stats.get("several_requests_in_one_step", 0) + 1
        elif policy == "on_iteration":
            rec = True
        elif policy == "on_interval":
            k = math.floor(o.t / itv) if itv != 0 else float("nan")
            if k > last_k:
                rec = True
                last_k = k
        if rec:
            recs.append((o.t, o.x))
            armed = False
            stats["policy_records"] = stats.get("policy_records", 0) + 1
        return rec

    counts = []
    h.rec_counts = counts
    h.pred_records = recs
    o = h.obs0
    if o.t != 0.0:
        bad("time right after set-up is %r, not 0" % o.t)
        return
    policy_step(o)
    counts.append(len(recs))
    if o.ns != len(recs):
        bad("after set-up the engine holds %d records, the sampling contract gives %d (policy %s, requested %s)" % (
            o.ns, len(recs), policy, ts[:4]))
        return
    prev = o
    nsteps = 0
    for ai, (kind, ret, o) in enumerate(h.actions):
        if kind == "iterate":
            if complete:
                stats["iterate_after_completion"] = stats.get("iterate_after_completion", 0) + 1
                armed = True
                if ret is not False:
                    bad("iterate() on a completed simulation returned %r" % ret, action=ai)
                    return
                if o.t != prev.t or not same(o.x, prev.x) or o.ns != prev.ns:
                    bad("iterate() on a completed simulation changed the engine (t %r->%r, records %d->%d)" % (
                        prev.t, o.t, prev.ns, o.ns), action=ai)
                    return
            else:
                armed = True
                died = (not fixed_step) and (ret is False) and o.t == prev.t
                if died:
                    # Gillespie with no possible event: no step, completion reported
                    stats["gillespie_died"] = stats.get("gillespie_died", 0) + 1
                    if not same(o.x, prev.x) or o.ns != prev.ns:
                        bad("a call that reported completion without advancing time changed state or records", action=ai)
                        return
                    complete = True
                    h.died_at = ai
                else:
                    nsteps += 1
                    if not (o.t > prev.t):
                        bad("time did not increase in an iteration (%r -> %r)" % (prev.t, o.t), action=ai)
                        return
                    if fixed_step and o.t != prev.t + st["dt_e"]:
                        bad("fixed-step engine: t=%r after a step from %r with time step %r" % (o.t, prev.t, st["dt_e"]),
                            action=ai)
                        return
                    policy_step(o)
                    complete = (tmax >= 0 and o.t > tmax)
                    if ret != (not complete):
                        bad("iterate() returned %r at t=%r with t_max=%r (completion is the first step beyond t_max)" % (
                            ret, o.t, tmax), action=ai)
                        return
                    if complete:
                        h.completed_at = ai
                        h.steps_to_complete = nsteps
        elif kind == "sample":
            stats["explicit_sample_calls"] = stats.get("explicit_sample_calls", 0) + 1
            if o.t != prev.t or not same(o.x, prev.x):
                bad("sample() changed time or state", action=ai)
                return
            if armed:
                recs.append((o.t, o.x))
                armed = False
                stats["explicit_records"] = stats.get("explicit_records", 0) + 1
            else:
                # second record request within one iteration: the statement is silent -- follow the engine
                if o.ns == len(recs) + 1:
                    recs.append((o.t, o.x))
                stats["explicit_unarmed"] = stats.get("explicit_unarmed", 0) + 1
        elif kind == "iterate_n0":
            stats["empty_batches"] = stats.get("empty_batches", 0) + 1
            if o.t != prev.t or not same(o.x, prev.x) or o.ns != prev.ns:
                bad("iterate_n(0) changed the engine", action=ai)
                return
            if bool(ret) != (not complete):
                bad("iterate_n(0) returned %r although the run %s" % (
                    ret, "has reported completion" if complete else "has not completed"), action=ai)
                return
        elif kind in ("noop", "is_complete", "progress"):
            if o.t != prev.t or not same(o.x, prev.x) or o.ns != prev.ns:
                bad("a read-only call (%s) changed the engine" % kind, action=ai)
                return
            if kind == "is_complete" and ret is not None:
                stats["is_complete_checked"] = stats.get("is_complete_checked", 0) + 1
                if bool(ret) != bool(complete):
                    bad("is_complete() = %r although the run %s (t=%r, t_max=%r)" % (
                        ret, "has reported completion" if complete else "of the current set-up has not completed", o.t, tmax),
                        action=ai)
                    return
            if kind == "progress" and ret is not None and not (isinstance(ret, float) and math.isfinite(ret)):
                bad("get_progress() = %r" % ret, action=ai)
                return
        else:
            return  # batched loop ops are not part of observed episodes
        if o.ns != len(recs):
            bad("after action %d (%s) the engine holds %d records, the sampling contract gives %d "
                "(policy %s, t=%r, requested %s, interval %r, t_max %r)" % (
                    ai, kind, o.ns, len(recs), policy, o.t, ts[:6], itv, tmax), action=ai)
            return
        counts.append(len(recs))
        prev = o
    h.nsteps = nsteps
    h.complete_pred = complete
    return recs


def recs_at_factory(h):
    """predicted records at the point where `apos` actions had been executed (None if the sampler oracle stopped early)"""
    def recs_at(apos):
        counts = getattr(h, "rec_counts", None)
        if counts is None or apos >= len(counts):
            return None
        return h.pred_records[:counts[apos]]
    return recs_at


def output_oracle(h, recs_at, phys, ns, nc, viol, stats, tag="C09"):
    """shape, ordering and unit facts of every fetched output; recs_at(apos) -> predicted records at that point"""
    eu = phys["eu"]
    us = phys["us"]
    for (apos, out) in h.outputs:
        n = out["n"]
        size = ns * nc
        rt = np.frombuffer(out["raw_t"], dtype=np.float64)
        rx = np.frombuffer(out["raw_x"], dtype=np.float64)
        t = np.frombuffer(out["t"], dtype=np.float64)
        data = np.frombuffer(out["data"], dtype=np.float64)

        def bad(msg):
            viol.append({"oracle": tag + ".output", "detail": msg})
        if len(t) != n or len(data) != n * size or out["nsamples"] != n:
            bad("trajectory has %d times and %d data values for %d records of %d species x %d cells" % (
                len(t), len(data), n, ns, nc))
            return
        recs = recs_at(apos)
        if recs is not None:
            if len(recs) != n:
                bad("output holds %d records, the sampling contract gives %d" % (n, len(recs)))
                return
            for k, (tt, xx) in enumerate(recs):
                if rt[k] != tt or not same(rx[k * size:(k + 1) * size].reshape(ns, nc), xx):
                    bad("record %d is not the state/time of the step that made it (t %r vs %r)" % (k, rt[k], tt))
                    return
        # units: the user-visible arrays are the raw ones times the unit factor
        ftq = si.factor(eu, si.DIM_QUANTITY) / si.factor(us, si.DIM_QUANTITY)
        ftt = si.factor(eu, si.DIM_TIME) / si.factor(us, si.DIM_TIME)
        if n:
            fin = np.isfinite(rx)
            if np.any(np.abs(t - rt * ftt) > 1e-13 * np.abs(t)) or \
                    np.any(np.abs(data[fin] - rx[fin] * ftq) > 1e-13 * np.abs(data[fin])) or \
                    not np.array_equal(np.isfinite(data), fin):
                bad("trajectory arrays are not the engine's records expressed in the script's units")
                return
        if np.any(np.diff(rt) < 0):
            bad("sample times decrease")
            return
        acc = out.get("acc")
        if acc is not None and n:
            # the accessors read the same array and report it in the same units
            d3 = data.reshape(n, ns, nc)
            g = np.frombuffer(acc[0], dtype=np.float64)
            loc = np.frombuffer(acc[2], dtype=np.float64)
            want_g = d3[:, 0, :].sum(axis=1)
            want_l = d3[:, ns - 1, nc - 1]
            fin_g = np.isfinite(want_g)
            if acc[1] != out["data_units"] or acc[3] != out["data_units"]:
                bad("get_trajectory() reports units %r / %r, trajectory.data is in %r" % (acc[1], acc[3], out["data_units"]))
                return
            if len(g) != n or len(loc) != n or np.any(np.abs(g[fin_g] - want_g[fin_g]) > 1e-12 * np.abs(d3[:, 0, :]).sum(axis=1)[fin_g] + 1e-300) \
                    or not same(loc, want_l):
                bad("get_trajectory() (merged first species / last species in the last cell) does not read trajectory.data")
                return
            stats["accessor_reads_checked"] = stats.get("accessor_reads_checked", 0) + 1
        stats["outputs_checked"] = stats.get("outputs_checked", 0) + 1


# ------------------------------------------------------------------------------------------------ Euler refinement
def euler_oracle(h, model, phys, viol, stats, tag="C01", rtol=1e-11):
    """every observed Euler step equals x + dt*f_ref(x) entry-wise"""
    eu = phys["eu"]
    fq = si.factor(eu, si.DIM_QUANTITY)
    ft = si.factor(eu, si.DIM_TIME)
    if h.obs0 is None:
        return
    prev = h.obs0
    worst = 0.0
    for ai, (kind, ret, o) in enumerate(h.actions):
        if kind == "iterate" and o.t != prev.t:
            X = prev.x * fq
            dt = (o.t - prev.t) * ft
            want_dt = phys.get("sp", {}).get("dt")
            if want_dt and abs(dt - want_dt) > 1e-9 * want_dt:
                viol.append({"oracle": tag + ".euler-step", "action": ai,
                             "detail": "the engine advanced time by %r s in one step, the script's time step is %r s" % (dt, want_dt)})
                return
            f, scale = model.f(X, want_scale=True)
            pred = X + dt * f
            tol = rtol * (np.abs(X) + dt * scale) + 1e-300
            err = np.abs(o.x * fq - pred) / tol
            w = float(err.max())
            worst = max(worst, w)
            stats["euler_steps_checked"] = stats.get("euler_steps_checked", 0) + 1
            if not np.all(np.isfinite(o.x)):
                stats["nonfinite_state"] = stats.get("nonfinite_state", 0) + 1
                return
            if w > 1.0:
                s, i = np.unravel_index(int(err.argmax()), err.shape)
                viol.append({"oracle": tag + ".euler-step", "action": ai,
                             "detail": "step %d: entry (species %d, cell %d) became %r molecules, the rate law gives %r "
                                       "(from %r, dt=%r s, f=%r molecules/s; error/tolerance %.3g)" % (
                                           ai, s, i, float(o.x[s, i] * fq), float(pred[s, i]), float(X[s, i]), dt,
                                           float(f[s, i]), w)})
                return
        prev = o
    stats["euler_worst_err_over_tol"] = max(stats.get("euler_worst_err_over_tol", 0.0), worst)


# ------------------------------------------------------------------------------------------------ conservation
def conservation_oracle(h, model, phys, viol, stats, kind, tag="C02"):
    vecs = model.conservation_vectors()
    if not vecs or not h.outputs:
        return
    ns, nc = model.ns, model.nc
    size = ns * nc
    apos, out = h.outputs[-1]
    n = out["n"]
    if n < 2:
        return
    rx = np.frombuffer(out["raw_x"], dtype=np.float64).reshape(n, ns, nc)
    tot = rx.sum(axis=2)          # [sample, species] in engine units
    for c in vecs:
        cv = np.array(c, dtype=float)
        series = tot @ cv
        stats["conservation_series"] = stats.get("conservation_series", 0) + 1
        if kind == "euler":
            if not np.all(np.isfinite(series)):
                stats["nonfinite_state"] = stats.get("nonfinite_state", 0) + 1
                continue
            scale = float((np.abs(rx).sum(axis=2) @ np.abs(cv)).max())
            dev = float(np.abs(series - series[0]).max())
            if scale > 0:
                stats["max_euler_conservation_rel_dev"] = max(stats.get("max_euler_conservation_rel_dev", 0.0), dev / scale)
            # (rounding only: every step adds pairs of terms that cancel; ~1e-16 x steps x scale)
            if dev > 1e-11 * scale + 1e-300:
                viol.append({"oracle": tag + ".conserved", "detail":
                             "combination %s drifts by %r (scale %r) over %d samples of an Euler run" % (c, dev, scale, n)})
                return
        elif np.all(rx == np.floor(rx)):
            if np.any(series != series[0]):
                k = int(np.argmax(series != series[0]))
                viol.append({"oracle": tag + ".conserved", "detail":
                             "combination %s has total %r in sample 0 and %r in sample %d of a %s run" % (
                                 c, float(series[0]), float(series[k]), k, kind)})
                return
        else:
            # fractional amounts handed to a molecule-moving engine untouched ('none'): whole molecules move, x +- 1 may
            # round in the last place when it crosses a power of two, hence a rounding tolerance
            stats["conservation_series_fractional"] = stats.get("conservation_series_fractional", 0) + 1
            scale = float((np.abs(rx).sum(axis=2) @ np.abs(cv)).max())
            dev = float(np.abs(series - series[0]).max())
            if dev > 1e-9 * scale + 1e-300:
                viol.append({"oracle": tag + ".conserved", "detail":
                             "combination %s drifts by %r (scale %r) over %d samples of a %s run" % (c, dev, scale, n, kind)})
                return
    # the samples the caller receives (trajectory.data, script units): the same totals, to rounding of the unit conversion
    try:
        data = np.frombuffer(out["data"], dtype=np.float64).reshape(n, ns, nc)
    except Exception:
        return
    if not np.all(np.isfinite(data)):
        return
    totd = data.sum(axis=2)
    for c in vecs:
        cv = np.array(c, dtype=float)
        series = totd @ cv
        scale = float((np.abs(data).sum(axis=2) @ np.abs(cv)).max())
        dev = float(np.abs(series - series[0]).max())
        stats["conservation_series_in_trajectory_data"] = stats.get("conservation_series_in_trajectory_data", 0) + 1
        if dev > 1e-11 * scale + 1e-300:
            k = int(np.argmax(np.abs(series - series[0])))
            viol.append({"oracle": tag + ".conserved", "detail":
                         "trajectory.data: combination %s has total %r in sample 0 and %r in sample %d of a %s run (scale %r)" % (
                             c, float(series[0]), float(series[k]), k, kind, scale)})
            return


def chemostat_oracle(h, model, viol, stats, tag="C03"):
    """every flagged entry keeps, bit for bit, its value of sample 0 in every sample and every observed state"""
    if not model.chem.any():
        return
    mask = model.chem.astype(bool)
    if h.obs0 is None:
        return
    ref = h.obs0.x[mask]
    for ai, (kind, ret, o) in enumerate(h.actions):
        if not same(o.x[mask], ref):
            d = np.argwhere(mask & (o.x != h.obs0.x))
            s, i = d[0]
            viol.append({"oracle": tag + ".chemostat-constant", "action": ai,
                         "detail": "chemostated entry (species %d, cell %d) changed from %r to %r" % (
                             s, i, float(h.obs0.x[s, i]), float(o.x[s, i]))})
            return
    stats["chemostated_entries_watched"] = stats.get("chemostated_entries_watched", 0) + int(mask.sum())
    for (apos, out) in h.outputs:
        n = out["n"]
        if n == 0:
            continue
        rx = np.frombuffer(out["raw_x"], dtype=np.float64).reshape(n, model.ns, model.nc)
        data = np.frombuffer(out["data"], dtype=np.float64).reshape(n, model.ns, model.nc)
        for arr, name in ((rx, "engine record"), (data, "trajectory.data")):
            first = arr[0][mask]
            for k in range(1, n):
                if not same(arr[k][mask], first):
                    viol.append({"oracle": tag + ".chemostat-constant",
                                 "detail": "%s: chemostated entries differ between sample 0 and sample %d" % (name, k)})
                    return
