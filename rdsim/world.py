"""The simulated world: one process lifetime executing a concrete list of episodes against the real library.

Parent side: run_lifetime() forks a child, reads its event stream, classifies the outcome.
Child side: _child_main() dlopens the freshly built engine, installs the virtual clock, executes the ops.
The child contains no PRNG use of its own: the case is fully concrete."""
import ctypes
import gc
import hashlib
import os
import pickle
import select
import signal
import struct
import sys
import time
import traceback

REPO_SRC = os.path.join(os.environ.get("RDSIM_REPO", "/repo"), "src")

LOOP_OPS = ("iterate", "iterate_n", "run")


# ------------------------------------------------------------------------------------------------ clock
class VClock:
    """virtual millisecond clock. A plan is either a list of absolute values returned one per call, or
    {"slices": [n1, n2, ...], "ms": m}: successive run() slices last n1, n2, ... iterations (cyclically)."""

    def __init__(self):
        self.plan = None
        self.pos = 0
        self.calls = 0
        self.underflow = 0
        self.last = 0
        # slices mode state
        self.in_slice = False
        self.count = 0
        self.sidx = 0
        self.base = 0

    def set_plan(self, plan):
        self.plan = plan
        self.pos = 0
        self.calls = 0
        self.underflow = 0
        if isinstance(plan, dict):
            self.in_slice = False
            self.count = 0
            self.sidx = 0
            self.base = int(plan.get("base", 0))

    def __call__(self):
        self.calls += 1
        p = self.plan
        if p is None:
            self.underflow += 1
            self.last += 1 << 24
            return self.last
        if isinstance(p, dict):
            sl = p["slices"]
            ms = int(p.get("ms", 1000))
            if not self.in_slice:
                self.in_slice = True
                self.count = 0
                self.last = self.base
                return self.base
            self.count += 1
            target = sl[self.sidx % len(sl)]
            if self.count >= target:
                self.in_slice = False
                self.sidx += 1
                self.base += ms
                self.last = self.base
                return self.base
            self.last = self.base
            return self.base
        if self.pos < len(p):
            self.last = int(p[self.pos])
            self.pos += 1
            return self.last
        self.underflow += 1
        self.last += 1 << 24
        return self.last


CLOCKFN = ctypes.CFUNCTYPE(ctypes.c_longlong)


# ------------------------------------------------------------------------------------------------ child
def _send(wfd, obj):
    b = pickle.dumps(obj, protocol=4)
    os.write(wfd, struct.pack("<I", len(b)))
    mv = memoryview(b)
    while len(mv):
        n = os.write(wfd, mv)
        mv = mv[n:]


def _to_unit_objects(v):
    """JSON markers -> strengths objects (inside the child only)."""
    from strengths import UnitArray, UnitValue
    if isinstance(v, dict) and "__ua__" in v:
        return UnitArray(v["__ua__"]["value"], v["__ua__"]["units"])
    if isinstance(v, dict) and "__uv__" in v:
        return UnitValue(v["__uv__"])
    return v


class ChildWorld:
    def __init__(self, case, libpath, wfd):
        self.case = case
        self.libpath = libpath
        self.wfd = wfd
        self.scripts = {}
        self.systems = {}
        self.objs = {}
        self.kept = {}
        self.us_objects = {}
        self.clock = VClock()
        self.global_size = 0   # state size of the last set-up made in this process (what the native singleton holds)

    def boot(self):
        if REPO_SRC not in sys.path:
            sys.path.insert(0, REPO_SRC)
        import warnings
        warnings.simplefilter("ignore")
        import strengths  # noqa
        from strengths import engine_collection
        self.st = strengths
        self.lib = ctypes.CDLL(self.libpath)
        self.lib.engineexport_get_progress.restype = ctypes.c_double
        self.lib.engineexport_get_time.restype = ctypes.c_double
        self.lib.engineexport_verif_loopcount.restype = ctypes.c_longlong
        self.lib.engineexport_verif_set_loopcap.argtypes = [ctypes.c_longlong]
        self._cb = CLOCKFN(self.clock)
        self.hook_clock = self.lib.engineexport_verif_set_clock(self._cb)
        # loop budget of the redistribution correction (hook H2): the honest cost grows like the square root of the molecule
        # total (one pass moves one molecule, the totals are off by about sqrt(N) after the first draw)
        tot_ = 0.0
        for sd_ in self.case.get("scripts", []):
            st_ = (sd_.get("phys") or {}).get("spec", {}).get("state")
            if st_:
                tot_ = max(tot_, float(sum(abs(float(v_)) for v_ in st_)))
        self.hook_cap = self.lib.engineexport_verif_set_loopcap(int(self.case.get("loopcap", 300000) + 200.0 * tot_ ** 0.5))
        self.sandbox = None
        if self.case.get("sandbox"):
            import tempfile
            root = os.path.join(os.environ.get("RDSIM_WORK", "/verif/.work"), "sbx")
            os.makedirs(root, exist_ok=True)
            self.sandbox = tempfile.mkdtemp(prefix="lt%d-" % os.getpid(), dir=root)
            os.chdir(self.sandbox)
        lp = self.libpath
        engine_collection._get_engine_path = lambda: lp
        self.ec = engine_collection

    # ---- builders
    def get_system(self, sidx):
        if sidx not in self.systems:
            sd = self.case["scripts"][sidx]
            st = self.st
            pus = sd.get("parent_us")
            if pus is None:
                system = st.rdsystem_from_dict(sd["system"])
            else:
                system = st.rdsystem_from_dict(sd["system"], st.UnitsSystem(**pus))
            self.systems[sidx] = system
        return self.systems[sidx]

    def get_script(self, sidx):
        if sidx not in self.scripts:
            sd = self.case["scripts"][sidx]
            st = self.st
            system = self.get_system(sidx)
            kw = {}
            for k, v in sd["script"].items():
                if k == "units_system":
                    # one UnitsSystem object per distinct value and process: the caller keeps and re-uses its objects
                    key = (v.get("space"), v.get("time"), v.get("quantity"))
                    if key not in self.us_objects:
                        self.us_objects[key] = st.UnitsSystem(**v)
                    kw[k] = self.us_objects[key]
                elif k == "t_sample" and isinstance(v, list):
                    kw[k] = [_to_unit_objects(x) for x in v]
                else:
                    kw[k] = _to_unit_objects(v)
            real_ts = None
            if sd.get("pre_t_sample") is not None:
                # the caller constructs the script with another list of requested times and assigns the real one afterwards
                real_ts = kw["t_sample"]
                kw["t_sample"] = [_to_unit_objects(x) for x in sd["pre_t_sample"]]
            self.scripts[sidx] = st.RDScript(system=system, **kw)
            if real_ts is not None:
                self.scripts[sidx].t_sample = real_ts
            if sd.get("via_dict"):
                # the caller keeps its scripts as dictionaries (or files): what runs is the script read back from its own
                # dictionary form
                import json as _json3
                dd = st.rdscript_to_dict(self.scripts[sidx])
                if sd["via_dict"] == "json":
                    dd = _json3.loads(_json3.dumps(dd, default=list))
                self.scripts[sidx] = st.rdscript_from_dict(dd)
            if sd.get("post_units"):
                # the caller changes the script's units system after construction (e.g. after loading it): the stored
                # quantities keep their own units, only the units of the output change
                self.scripts[sidx].units_system = st.UnitsSystem(**sd["post_units"])
        return self.scripts[sidx]

    def make_engine(self, kind, via):
        from strengths.librdengine import LibRDEngine
        if via == "factory":
            return {"euler": self.ec.euler_engine, "tauleap": self.ec.tauleap_engine,
                    "gillespie": self.ec.gillespie_engine}[kind]()
        return LibRDEngine(ctypes.CDLL(self.libpath), option=kind, description="rdsim",
                           requires_molecules=(kind != "euler"))

    def poison(self, byte):
        libc = ctypes.CDLL(None)
        libc.malloc.restype = ctypes.c_void_p
        libc.malloc.argtypes = [ctypes.c_size_t]
        libc.free.argtypes = [ctypes.c_void_p]
        libc.memset.argtypes = [ctypes.c_void_p, ctypes.c_int, ctypes.c_size_t]
        blocks = []
        for size in list(range(16, 2048, 16)) + [4096, 8192, 16384]:
            for _ in range(8):
                p = libc.malloc(size)
                if p:
                    libc.memset(p, byte, size)
                    blocks.append(p)
        for p in blocks:
            libc.free(p)

    # ---- file system ops (C12): a sandbox directory per lifetime, paths relative to its root unless flagged absolute
    def fs_path(self, rel, absolute):
        import os as _os
        if absolute:
            return _os.path.join(self.sandbox, rel)
        # relative to the current working directory
        return _os.path.relpath(_os.path.join(self.sandbox, rel), _os.getcwd())

    def fs_op(self, ev, op, eng):
        import json as _json
        import os as _os
        import shutil
        from . import phys as P
        st = self.st
        name = op[0]
        objs = self.kept
        if name == "fs_build":
            nm, kind, pl = op[1], op[2], op[3]
            if kind == "network":
                o = st.rdnetwork_from_dict(pl["d"], st.UnitsSystem(**pl["pus"]))
            elif kind == "space":
                o = st.rdspace_from_dict(pl["d"], st.UnitsSystem(**pl["pus"]))
            elif kind == "system":
                o = self.get_system(pl["sidx"]).copy()
            elif kind == "script":
                o = self.get_script(pl["sidx"]).copy()
            elif kind == "trajectory":
                script = self.get_script(pl["sidx"])
                self.clock.set_plan({"slices": [5, 3], "ms": 1000})
                self.global_size = script.system.state_size()
                if pl.get("cgmap") is not None:
                    o = st.simulate_script(script, eng, cgmap=list(pl["cgmap"]))
                else:
                    o = st.simulate_script(script, eng)
            else:
                raise ValueError(kind)
            objs[nm] = (kind, o)
            ev["phys"] = P.phys(o)
        elif name == "fs_phys":
            ev["phys"] = P.phys(objs[op[1]][1])
        elif name == "fs_save":
            kind, o = objs[op[1]]
            path = self.fs_path(op[2], op[3].get("abs", False))
            ev["path"] = path.replace(self.sandbox, "<sandbox>")
            if kind == "network":
                st.save_rdnetwork(o, path)
            elif kind == "space":
                st.save_rdspace(o, path)
            elif kind == "system":
                st.save_rdsystem(o, path)
            elif kind == "script":
                st.save_rdscript(o, path)
            elif kind == "trajectory":
                st.save_rdtrajectory(o, path, separate_data=bool(op[3].get("separate", True)))
        elif name == "fs_load":
            nm, kind = op[1], op[2]
            path = self.fs_path(op[3], op[4].get("abs", False))
            ev["path"] = path.replace(self.sandbox, "<sandbox>")
            ev["cwd"] = _os.path.relpath(_os.getcwd(), self.sandbox)
            if kind == "network":
                o = st.load_rdnetwork(path)
            elif kind == "space":
                o = st.load_rdspace(path)
            elif kind == "system":
                o = st.load_rdsystem(path)
            elif kind == "script":
                o = st.load_rdscript(path)
            elif kind == "trajectory":
                o = st.load_rdtrajectory(path)
            objs[nm] = (kind, o)
            ev["phys"] = P.phys(o)
        elif name == "fs_raw":
            # ["fs_raw", object name it stands for, path, dictionary]: a hand-written file (keys omitted as a person would)
            pth = _os.path.join(self.sandbox, op[2])
            _os.makedirs(_os.path.dirname(pth), exist_ok=True)
            with open(pth, "w", encoding="utf-8") as f:
                _json.dump(op[3], f)
        elif name == "fs_poke_state":
            # the caller changes the state of its object in place (no setter involved)
            kind, o = objs[op[1]]
            sysobj = o if kind == "system" else o.system
            sysobj.state.value[int(op[2]) % len(sysobj.state.value)] += float(op[3])
            ev["phys"] = P.phys(o)
        elif name == "fs_touch_units":
            # the caller edits, in place, the units system of an object it got from a reader (its own object, its own business)
            kind, o = objs[op[1]]
            o.units_system["time"] = "min"
            o.units_system["quantity"] = "mol"
        elif name == "fs_chdir":
            _os.chdir(_os.path.join(self.sandbox, op[1]))
        elif name == "fs_mkdir":
            _os.makedirs(_os.path.join(self.sandbox, op[1]), exist_ok=True)
        elif name == "fs_move":
            shutil.move(_os.path.join(self.sandbox, op[1]), _os.path.join(self.sandbox, op[2]))
        elif name == "fs_copy":
            shutil.copytree(_os.path.join(self.sandbox, op[1]), _os.path.join(self.sandbox, op[2]))
        elif name == "fs_fixpoint":
            kind, o = objs[op[1]]
            to_d = {"network": st.rdnetwork_to_dict, "space": st.rdspace_to_dict, "system": st.rdsystem_to_dict,
                    "script": st.rdscript_to_dict}[kind]
            from_d = {"network": st.rdnetwork_from_dict, "space": st.rdspace_from_dict, "system": st.rdsystem_from_dict,
                      "script": st.rdscript_from_dict}[kind]
            d1 = to_d(o)
            if op[2]:
                d1j = _json.loads(_json.dumps(d1))
            else:
                import copy as _copy
                d1j = _copy.deepcopy(d1)
            o2 = from_d(d1j)
            d2 = to_d(o2)
            n1 = _json.dumps(d1, sort_keys=True, default=list)
            n2 = _json.dumps(d2, sort_keys=True, default=list)
            ev["equal"] = (n1 == n2)
            if n1 != n2:
                ev["d1"] = n1[:3000]
                ev["d2"] = n2[:3000]
            ev["phys"] = P.phys(o2)
        elif name == "fs_split":
            # multi-file layout written from the library's own dictionary form, with relative references
            kind, o = objs[op[1]]
            top = op[2]
            lay = op[3]
            d = st.rdsystem_to_dict(o)
            topdir = _os.path.dirname(_os.path.join(self.sandbox, top))
            _os.makedirs(topdir, exist_ok=True)
            import numpy as _np

            def wjson(rel, obj):
                p = _os.path.join(topdir, rel)
                _os.makedirs(_os.path.dirname(p), exist_ok=True)
                with open(p, "w", encoding="utf-8") as f:
                    _json.dump(obj, f, default=list)
            if lay.get("network"):
                wjson(lay["network"], d["network"])
                d["network"] = lay["network"]
            if lay.get("space"):
                sd = d["space"]
                if lay.get("cell_env") and sd.get("type") == "grid":
                    sp_dir = _os.path.dirname(_os.path.join(topdir, lay["space"]))
                    _os.makedirs(sp_dir, exist_ok=True)
                    ce = sd["cell_env"]
                    p = _os.path.join(sp_dir, lay["cell_env"])
                    if lay["cell_env"].endswith(".npy"):
                        _np.save(p, _np.array(ce, dtype=int))
                    else:
                        with open(p, "w") as f:
                            f.write((", " if lay.get("commas") else " ").join(str(int(c)) for c in ce))
                    sd["cell_env"] = lay["cell_env"]
                wjson(lay["space"], sd)
                d["space"] = lay["space"]
            if lay.get("state"):
                p = _os.path.join(topdir, lay["state"])
                _os.makedirs(_os.path.dirname(p), exist_ok=True)
                _np.save(p, _np.array(d["state"]["value"], dtype=float))
                d["state"] = {"value": lay["state"], "units": d["state"]["units"]}
            if lay.get("chemostats"):
                p = _os.path.join(topdir, lay["chemostats"])
                _os.makedirs(_os.path.dirname(p), exist_ok=True)
                if lay["chemostats"].endswith(".npy"):
                    _np.save(p, _np.array(d["chemostats"], dtype=int))
                else:
                    with open(p, "w") as f:
                        f.write(" ".join(str(int(c)) for c in d["chemostats"]))
                d["chemostats"] = lay["chemostats"]
            wjson(_os.path.basename(top), d)
        else:
            raise ValueError(name)

    # ---- observation through the exported getters (side-effect freedom is itself checked by C08 twins)
    def observe(self):
        lib = self.lib
        t = lib.engineexport_get_time()
        n = lib.engineexport_get_nsamples()
        size = self.global_size
        buf = (ctypes.c_double * (size + 8))()
        lib.engineexport_get_state(buf)
        return {"t": t, "ns": n, "x": bytes(buf)[:8 * size]}

    def raw_output(self):
        lib = self.lib
        n = lib.engineexport_get_nsamples()
        size = self.global_size
        tb = (ctypes.c_double * (n + 1))()
        lib.engineexport_get_tsample(tb)
        db = (ctypes.c_double * (n * size + 1))()
        lib.engineexport_get_trajectory(db)
        return {"n": n, "raw_t": bytes(tb)[:8 * n], "raw_x": bytes(db)[:8 * n * size]}

    def do_loop_op(self, eng, op):
        name = op[0]
        if name == "iterate":
            return bool(eng.iterate()), 1
        if name == "iterate_n":
            return bool(eng.iterate_n(int(op[1]))), int(op[1])
        if name == "run":
            self.clock.set_plan(op[2])
            r = bool(eng.run(int(op[1])))
            return r, self.clock.calls
        raise ValueError(name)

    def exec_op(self, ep, eng, op, sidx):
        name = op[0]
        ev = {"op": name}
        if name == "setup":
            script = self.get_script(sidx)
            if len(op) > 1 and op[1] == "churn":
                gc.collect()
            eng.setup(script)
            setup_ok = True
            self.global_size = script.system.state_size()
            ev["status"] = int(self.lib.engineexport_verif_status())
            ev["loops"] = int(self.lib.engineexport_verif_loopcount())
            ev["seed"] = int(script.rng_seed)
            try:
                # the time quantities exactly as the front end hands them to the engine (same expressions as
                # LibRDEngine._setup_*); the oracles check them against the SI spec and use them to resolve ties
                eus = eng._units_system
                ev["ts_e"] = [float(v) for v in script.t_sample.convert(eus).value]
                ev["tmax_e"] = float(script.t_max.convert(eus).value)
                ev["interval_e"] = float(script.sampling_interval.convert(eus).value)
                ev["dt_e"] = float(script.time_step.convert(eus).value)
                ev["eus"] = {"space": eus["space"], "time": eus["time"], "quantity": eus["quantity"]}
            except Exception as e:
                ev["ts_e_exc"] = repr(e)
            if len(op) > 1 and op[1] == "churn":
                junk = [bytearray(64 + 8 * (i % 50)) for i in range(400)]
                del junk
                gc.collect()
        elif name in LOOP_OPS:
            r, n = self.do_loop_op(eng, op)
            ev["ret"] = r
            if name == "run":
                ev["calls"] = n
                ev["underflow"] = self.clock.underflow
        elif name == "sample":
            eng.sample()
        elif name == "progress":
            ev["ret"] = float(eng.get_progress())
        elif name == "is_complete":
            ev["ret"] = bool(eng.is_complete())
        elif name == "observe":
            ev.update(self.observe())
        elif name == "output":
            tr = eng.get_output()
            ev["t"] = tr.t.value.tobytes()
            ev["data"] = tr.data.value.tobytes()
            ev["t_units"] = str(tr.t.units)
            ev["data_units"] = str(tr.data.units)
            ev["seed"] = int(tr.script.rng_seed)
            ev["nsamples"] = int(tr.nsamples())
            try:
                if tr.system.state_size() <= 400:
                    # what the trajectory says it was computed from (stored system and script)
                    import hashlib
                    import json as _json2
                    from . import phys as _P
                    ev["stored"] = hashlib.sha256(_json2.dumps(_P.phys_script(tr.script), sort_keys=True, default=str).encode()).hexdigest()[:16]
            except Exception as e_:
                ev["stored_exc"] = repr(e_)
            try:
                # what the accessors say about the same array: system-wide trajectory of the first species, local
                # trajectory of the last species in the last cell (values and units)
                g_ = tr.get_trajectory(0, merge=True)
                l_ = tr.get_trajectory(tr.nspecies() - 1, position=tr.ncells() - 1)
                ev["acc"] = [g_.value.tobytes(), str(g_.units), l_.value.tobytes(), str(l_.units)]
            except Exception as e_:
                ev["acc_exc"] = repr(e_)
            ev.update(self.raw_output())
            if len(op) > 1:
                self.kept[op[1]] = tr
        elif name == "finalize":
            eng.finalize()
        elif name == "drive":
            # ["drive", [loop ops / sample / observe ...], cap]: repeat cyclically until a loop op returns False
            plan, cap = op[1], int(op[2])
            use_ic = len(op) > 3 and op[3] == "ic"     # the caller's loop is `while not engine.is_complete(): ...`
            obs_t, obs_n, obs_x, rets, ro = [], [], [], [], []
            rs_n = rs_clock = rs_ms = 0
            nloop = 0
            done = False
            k = 0
            want_obs = any(o[0] == "observe" for o in plan)
            while True:
                o = plan[k % len(plan)]
                if o[0] in LOOP_OPS:
                    if done or nloop >= cap:
                        break
                    if use_ic and eng.is_complete():
                        done = True
                        break
                    r, _ = self.do_loop_op(eng, o)
                    nloop += 1
                    rets.append(r)
                    if o[0] == "run":
                        rs_n += 1
                        rs_clock += 1 if r else 0
                        if isinstance(o[2], list) and o[2]:
                            rs_ms += max(0, self.clock.last - int(o[2][0]))
                    if not r:
                        done = True
                elif o[0] == "observe":
                    ob = self.observe()
                    obs_t.append(ob["t"]); obs_n.append(ob["ns"]); obs_x.append(ob["x"])
                elif o[0] == "sample":
                    eng.sample()
                elif o[0] == "progress":
                    ro.append(float(eng.get_progress()))
                elif o[0] == "is_complete":
                    ro.append(bool(eng.is_complete()))
                elif o[0] == "output":
                    # the caller looks at what has been recorded so far, in the middle of the run
                    tr_mid = eng.get_output()
                    ro.append(int(tr_mid.nsamples()))
                else:
                    raise ValueError("drive: " + o[0])
                k += 1
                if done and k % len(plan) == 0:
                    break
            ev["rets"] = rets
            ev["ro"] = ro
            ev["run_stats"] = [rs_n, rs_clock, rs_ms]
            ev["nloop"] = nloop
            ev["done"] = done
            if want_obs:
                ev["obs_t"] = obs_t
                ev["obs_n"] = obs_n
                ev["obs_x"] = b"".join(obs_x)
        elif name == "simulate_script":
            # the library's own driver loop, under a virtual clock
            self.clock.set_plan(op[1])
            script = self.get_script(sidx)
            self.global_size = script.system.state_size()
            if isinstance(op[1], dict) and op[1].get("progress"):
                # with the progress line switched on (printed to a sink)
                import io
                import contextlib
                with contextlib.redirect_stdout(io.StringIO()):
                    tr = self.st.simulate_script(script, eng, print_progress=True)
            else:
                tr = self.st.simulate_script(script, eng)
            ev["t"] = tr.t.value.tobytes()
            ev["data"] = tr.data.value.tobytes()
            ev["t_units"] = str(tr.t.units)
            ev["data_units"] = str(tr.data.units)
            ev["seed"] = int(tr.script.rng_seed)
            ev["nsamples"] = int(tr.nsamples())
            ev["calls"] = self.clock.calls
            if len(op) > 2:
                self.kept[op[2]] = tr
        elif name == "simulate_cg":
            # ["simulate_cg", clock plan, cgmap]: the library's driver loop on the coarse-grained system (the trajectory comes
            # back spread over the cells of the original grid)
            self.clock.set_plan(op[1])
            script = self.get_script(sidx)
            tr = self.st.simulate_script(script, eng, cgmap=list(op[2]))
            self.global_size = 0
            ev["t"] = tr.t.value.tobytes()
            ev["data"] = tr.data.value.tobytes()
            ev["t_unit"] = tr.t.units.sys["time"]
            ev["data_unit"] = tr.data.units.sys["quantity"]
            ev["nsamples"] = int(tr.nsamples())
        elif name == "simulate_api":
            # the top-level convenience function: builds its own RDScript from keyword arguments
            self.clock.set_plan(op[1])
            sd = self.case["scripts"][sidx]
            system = self.get_system(sidx)
            kw = {}
            for k, v in sd["script"].items():
                if k == "units_system":
                    kw[k] = self.st.UnitsSystem(**v)
                elif k == "t_sample" and isinstance(v, list):
                    kw[k] = [_to_unit_objects(x) for x in v]
                else:
                    kw[k] = _to_unit_objects(v)
            ts = kw.pop("t_sample")
            self.global_size = system.state_size()
            tr = self.st.simulate(system, ts, engine=eng, **kw)
            ev["t"] = tr.t.value.tobytes()
            ev["data"] = tr.data.value.tobytes()
            ev["seed"] = int(tr.script.rng_seed)
            ev["nsamples"] = int(tr.nsamples())
        elif name == "rerun_kept":
            # re-run the script stored in a kept trajectory on a fresh engine object of the given kind
            tr0 = self.kept[op[1]]
            self.clock.set_plan({"slices": [7, 1, 3], "ms": 1000})
            e2 = self.make_engine(op[2], "LibRDEngine")
            self.global_size = tr0.script.system.state_size()
            tr = self.st.simulate_script(tr0.script, e2)
            ev["t"] = tr.t.value.tobytes()
            ev["data"] = tr.data.value.tobytes()
            ev["seed"] = int(tr.script.rng_seed)
        elif name == "pyseed":
            import random
            random.seed(int(op[1]))
        elif name == "drop_script":
            # forget the cached RDScript so that the next set-up constructs a new one (rng_seed=None draws again)
            self.scripts.pop(sidx, None)
        elif name == "kinetics":
            # co-observer: the Python kinetics functions evaluated at the state the engine is in right now
            # ["kinetics", entries [[s, i], ...] or "all", apply_chemostats, units_system dict, "dxdtf"?]
            st = self.st
            ob = self.observe()
            system = self.get_system(sidx)
            eus = eng._units_system
            import numpy as _np
            x = _np.frombuffer(ob["x"], dtype=_np.float64).copy()
            state = st.UnitArray(x, st.Units(sys=eus, dim=st.quantity_units_dimensions()), check_value=False)
            U = st.UnitsSystem(**op[3])
            # "apply_chemostats" is any truthy value: the literal, an int, a numpy boolean (e.g. system.chemostats.any())
            ac_ = [True, 1, _np.bool_(True)][len(ob["x"]) % 3] if op[2] else [False, 0, _np.bool_(False)][len(ob["x"]) % 3]
            ev["x"] = ob["x"]
            ev["t"] = ob["t"]
            vals, dims = [], []
            from strengths import kinetics
            if op[1] == "all":
                r = kinetics.compute_dstatedt(system, state=state, apply_chemostats=ac_, units_system=U)
                vals = [float(v) for v in r.value]
                dims = [[r.units.dim["space"], r.units.dim["time"], r.units.dim["quantity"]]]
                ev["usys"] = [r.units.sys["space"], r.units.sys["time"], r.units.sys["quantity"]]
            else:
                for (s, i) in op[1]:
                    r = kinetics.compute_dspeciesdt(system, int(s), int(i), state, ac_, U)
                    vals.append(float(r.value))
                    dims.append([r.units.dim["space"], r.units.dim["time"], r.units.dim["quantity"]])
                    ev.setdefault("usys_list", []).append([r.units.sys["space"], r.units.sys["time"], r.units.sys["quantity"]])
            ev["vals"] = vals
            ev["dims"] = dims
            if len(op) > 5 and op[5]:
                # the two building blocks: compute_reaction_rates / compute_diffusion_rates
                parts = []
                for prt in op[5]:
                    if prt[0] == "r":
                        a, b = kinetics.compute_reaction_rates(system, int(prt[1]), int(prt[2]), state, U)
                    else:
                        a, b = kinetics.compute_diffusion_rates(system, int(prt[1]), int(prt[2]), int(prt[3]), state, U)
                    parts.append([float(a.value), float(b.value),
                                  [a.units.sys["space"], a.units.sys["time"], a.units.sys["quantity"]],
                                  [a.units.dim["space"], a.units.dim["time"], a.units.dim["quantity"]],
                                  [b.units.sys["space"], b.units.sys["time"], b.units.sys["quantity"]],
                                  [b.units.dim["space"], b.units.dim["time"], b.units.dim["quantity"]]])
                ev["parts"] = parts
            if len(op) > 4 and op[4] == "dxdtf":
                f = system.make_dxdtf(U)
                xs = state.convert(U).value
                ev["dxdtf"] = [float(v) for v in f(0.0, list(xs))]
                # the exported right-hand side is a function of (t, x) only: evaluate the same function object again,
                # at another state and then at the first state once more
                f(1.0, [2.0 * float(v) + 1.0 for v in xs])
                ev["dxdtf_again"] = [float(v) for v in f(2.0, list(xs))]
        elif name == "set_k":
            # ["set_k", reaction index, "kf"|"kr", factor]: the caller has exported and used the right-hand side of ITS system
            # object, then assigns one rate constant of one reaction (only that one); what the kinetics functions and a newly
            # exported right-hand side say afterwards is the law with the new constant
            system = self.get_system(sidx)
            try:
                f0 = system.make_dxdtf()
                f0(0.0, [float(v) for v in system.state.value])
            except Exception:
                pass
            r = system.network.reactions[int(op[1])]

            def _sc(v, f):
                if isinstance(v, dict):
                    return {k: _sc(x, f) for k, x in v.items()}
                return self.st.UnitValue(float(v.value) * f, v.units)
            if len(op) > 4 and op[4] == "method":
                # both constants through Reaction.set_k(kf, kr)
                r.set_k(_sc(r.kf, float(op[3])) if op[2] == "kf" else r.kf, _sc(r.kr, float(op[3])) if op[2] == "kr" else r.kr)
            elif op[2] == "kf":
                r.kf = _sc(r.kf, float(op[3]))
            else:
                r.kr = _sc(r.kr, float(op[3]))
        elif name == "set_state_si":
            # ["set_state_si", species, cell, molecules]: RDSystem.set_state with a plain number, which is read in the system's
            # own units system (whatever units the state array happens to be stored in)
            system = self.get_system(sidx)
            from . import si as _si
            q = system.units_system["quantity"]
            system.set_state(int(op[1]), int(op[2]), float(op[3]) / _si.QUANTITY[q])
            self.scripts.pop(sidx, None)
        elif name == "chem_api":
            # ["chem_api", action, species, cell, value]: the chemostat map of the caller's live system changed through the
            # methods of RDSystem (after the kinetics functions were used on it)
            system = self.get_system(sidx)
            act = op[1]
            if act == "reset":
                system.reset_chemostats()
            elif act == "default":
                system.set_default_chemostats()
            elif act == "set":
                system.set_chemostat(int(op[2]), int(op[3]), op[4])
            elif act == "copy_set":
                other = system.copy()
                other.set_chemostat(int(op[2]), int(op[3]), op[4])
                self.kept["chem_copy"] = other
            elif act == "assign_set":
                # another system is given this system's map (the array itself), then edited: this one keeps its own
                other = system.copy()
                other.chemostats = system.chemostats
                other.set_chemostat(int(op[2]), int(op[3]), op[4])
                self.kept["chem_copy"] = other
            elif act == "set_after_script":
                # the script object was built from this system before; the system is edited afterwards: the script holds
                # its own copy (which is what the next set-up of that script runs on)
                self.get_script(sidx)
                system.set_chemostat(int(op[2]), int(op[3]), op[4])
            else:
                raise ValueError(act)
            ev["chem"] = [int(c) for c in system.chemostats]
        elif name == "drop_system":
            self.scripts.pop(sidx, None)
            self.systems.pop(sidx, None)
        elif name == "apply_reaction":
            # ["apply_reaction", reaction index, position, n]: hand-applied reaction on the RDSystem; becomes the
            # initial state of the next set-up of this script
            system = self.get_system(sidx)
            before = system.state.copy()
            system.apply_reaction(int(op[1]), position=int(op[2]), n=op[3], update=True)
            self.scripts.pop(sidx, None)
            ev["state"] = system.state.value.tobytes()
            ev["state_units"] = str(system.state.units)
            ev["before"] = before.value.tobytes()
        elif name == "setup_batch":
            # ["setup_batch", [seed, ...]]: set the script up once per seed and record the state right after each set-up
            script = self.get_script(sidx).copy()
            self.global_size = script.system.state_size()
            xs = []
            status = 0
            loops = 0
            mode_ = op[2] if len(op) > 2 and isinstance(op[2], dict) else {}
            for k_sd, sd in enumerate(op[1]):
                script.rng_seed = int(sd)
                eng.setup(script)
                st_ = int(self.lib.engineexport_verif_status())
                status |= st_
                loops = max(loops, int(self.lib.engineexport_verif_loopcount()))
                ob = self.observe()
                xs.append(ob["x"])
                if ob["t"] != 0.0:
                    ev["t_nonzero"] = ob["t"]
                if mode_.get("run_every") and k_sd % int(mode_["run_every"]) == int(mode_["run_every"]) - 1:
                    # this set-up is used: iterated (a few steps, or to completion), the output fetched, and no finalize before the next set-up
                    for _ in range(3 if k_sd % 2 else 400):
                        if not eng.iterate():
                            break
                    eng.get_output()
                    continue
                eng.finalize()
            ev["xs"] = b"".join(xs)
            ev["status"] = status
            ev["loops"] = loops
            eus = eng._units_system
            ev["eus"] = {"space": eus["space"], "time": eus["time"], "quantity": eus["quantity"]}
        elif name.startswith("fs_"):
            self.fs_op(ev, op, eng)
        elif name == "morph":
            # ["morph", a]: the caller has a live script object (built from description `a`, possibly set up and run
            # before, its right-hand side exported and evaluated) and now re-assigns its properties, one by one through the
            # public setters, to the content of this episode's description. From here on that object IS this episode's
            # script: what it yields must be what a freshly built one yields.
            st = self.st
            a_script = self.get_script(int(op[1]))
            a_sys = a_script.system
            try:
                f = a_sys.make_dxdtf()
                f(0.0, [float(v) for v in a_sys.state.value])
                from strengths import kinetics
                kinetics.compute_dstatedt(a_sys)
            except Exception:
                pass
            keep_s, keep_y = self.scripts.pop(sidx, None), self.systems.pop(sidx, None)
            b_script = self.get_script(sidx)            # freshly built from the description
            self.scripts.pop(sidx, None)
            self.systems.pop(sidx, None)
            b_sys = b_script.system
            # only what differs is assigned, in the order given (a caller who changes one rate constant assigns that one)
            for ch in self.case["scripts"][int(op[1])].get("changed", []):
                if ch[0] == "species":
                    sa, sb = a_sys.network.species[ch[1]], b_sys.network.species[ch[1]]
                    if ch[2] == "D":
                        sa.D = sb.D
                    else:
                        sa.density = sb.density
                elif ch[0] == "reaction":
                    ra, rb = a_sys.network.reactions[ch[1]], b_sys.network.reactions[ch[1]]
                    if (ch[1] + len(ch[2])) % 2 == 0:
                        ra.set_k(rb.kf if ch[2] == "kf" else ra.kf, rb.kr if ch[2] == "kr" else ra.kr)
                    elif ch[2] == "kf":
                        ra.kf = rb.kf
                    else:
                        ra.kr = rb.kr
                elif ch[0] == "state":
                    a_sys.state = b_sys.state
                elif ch[0] == "t_sample":
                    a_script.t_sample = b_script.t_sample
                elif ch[0] == "rng_seed":
                    a_script.rng_seed = b_script.rng_seed
                elif ch[0] == "sampling_interval":
                    a_script.sampling_interval = b_script.sampling_interval
            self.scripts[sidx] = a_script
            self.systems[sidx] = a_sys
            self.scripts.pop(int(op[1]), None)      # (a later use of description `a` builds new objects)
            self.systems.pop(int(op[1]), None)
        elif name == "script_touch":
            # the caller goes on using ITS script object after set-up (assigns another system, other sample times): the
            # engine must have taken its own copy. The cached script is dropped so that later set-ups start from a pristine one.
            script = self.get_script(sidx)
            other = self.get_system(int(op[1]))
            script.system = other
            script.t_sample = [0.0, 1.0, 2.0, 3.0, 4.0, 5.0, 6.0, 7.0]
            self.scripts.pop(sidx, None)
        elif name == "sysinfo":
            # what the front end made of the description: state, chemostat map (C04 twins)
            system = self.get_system(sidx)
            ev["state"] = system.state.value.tobytes()
            ev["state_q"] = system.state.units.sys["quantity"]
            ev["state_dim"] = [system.state.units.dim["space"], system.state.units.dim["time"], system.state.units.dim["quantity"]]
            ev["chem"] = [int(c) for c in system.chemostats]
        elif name == "gc":
            gc.collect()
        elif name == "poison":
            # F11 for non-sanitizer builds: recycle heap chunks of many size classes filled with a chosen byte, so that
            # a read of uninitialised heap by the next `new` objects becomes a deterministic function of the case
            self.poison(int(op[1]))
        else:
            raise ValueError("unknown op " + name)
        return ev

    def run(self, lifetime):
        self.boot()
        _send(self.wfd, {"__boot__": True, "hook_clock": self.hook_clock, "hook_cap": self.hook_cap})
        import random
        random.seed(int(lifetime.get("pyseed", 12345)))
        for ei, ep in enumerate(lifetime["episodes"]):
            slot = ep.get("obj", 0)
            if ep.get("new", False) or slot not in self.objs or self.objs[slot][0] != ep["kind"]:
                # an engine object has a fixed kind: a slot is re-created when the kind changes
                self.objs[slot] = (ep["kind"], self.make_engine(ep["kind"], ep.get("via", "LibRDEngine")))
            eng = self.objs[slot][1]
            setup_failed = False
            for oi, op in enumerate(ep["ops"]):
                if setup_failed and op[0] != "setup":
                    # the native singleton was never (re)initialised: nothing meaningful can follow
                    _send(self.wfd, {"op": op[0], "skipped": True, "e": ei, "i": oi})
                    continue
                _send(self.wfd, {"__mark__": (ei, oi)})
                try:
                    ev = self.exec_op(ep, eng, op, ep["script"])
                except Exception as e:  # recorded, judged by the oracles
                    ev = {"op": op[0], "exc": "%s: %s" % (type(e).__name__, e),
                          "tb": traceback.format_exc(limit=6)}
                    if getattr(self, "sandbox", None):
                        ev["exc"] = ev["exc"].replace(self.sandbox, "<sandbox>")
                        ev["tb"] = ev["tb"].replace(self.sandbox, "<sandbox>")
                    if op[0] in ("setup", "simulate_script", "simulate_api"):
                        setup_failed = True
                ev["e"] = ei
                ev["i"] = oi
                _send(self.wfd, ev)
        if self.sandbox:
            import shutil
            os.chdir("/")
            shutil.rmtree(self.sandbox, ignore_errors=True)
        _send(self.wfd, {"__done__": True})


def _child_main(case, lt_index, libpath, wfd, efd):
    try:
        os.dup2(efd, 2)
        signal.signal(signal.SIGINT, signal.SIG_DFL)
        w = ChildWorld(case, libpath, wfd)
        w.run(case["lifetimes"][lt_index])
        os._exit(0)
    except BaseException:
        try:
            _send(wfd, {"harness_exc": traceback.format_exc()})
        except Exception:
            pass
        os._exit(3)


# ------------------------------------------------------------------------------------------------ parent
class LifetimeResult:
    __slots__ = ("events", "status", "signal", "exitcode", "mark", "stderr", "wall", "boot", "harness_exc")

    def __init__(self):
        self.events = []
        self.status = "ok"      # ok | crash | timeout | harness
        self.signal = None
        self.exitcode = None
        self.mark = None
        self.stderr = ""
        self.wall = 0.0
        self.boot = None
        self.harness_exc = None

    def digest(self):
        h = hashlib.sha256()
        h.update(self.status.encode())
        for ev in self.events:
            for k in sorted(ev):
                if k == "tb":
                    continue
                v = ev[k]
                h.update(k.encode())
                if isinstance(v, bytes):
                    h.update(v)
                else:
                    h.update(repr(v).encode())
        return h.hexdigest()


def run_lifetime(case, lt_index, libpath, timeout=30.0):
    """fork a fresh process lifetime, execute, collect events."""
    r, w = os.pipe()
    er, ew = os.pipe()
    t0 = time.time()
    sys.stdout.flush()
    sys.stderr.flush()
    pid = os.fork()
    if pid == 0:
        os.close(r)
        os.close(er)
        _child_main(case, lt_index, libpath, w, ew)
        os._exit(4)
    os.close(w)
    os.close(ew)
    res = LifetimeResult()
    buf = bytearray()
    deadline = t0 + timeout
    eof = False
    err = bytearray()
    timed_out = False
    while not eof:
        left = deadline - time.time()
        if left <= 0:
            timed_out = True
            break
        rl, _, _ = select.select([r, er], [], [], min(left, 1.0))
        if er in rl:
            c = os.read(er, 65536)
            if c:
                err += c
        if r in rl:
            chunk = os.read(r, 1 << 20)
            if not chunk:
                eof = True
            else:
                buf += chunk
                while len(buf) >= 4:
                    n = struct.unpack_from("<I", buf, 0)[0]
                    if len(buf) < 4 + n:
                        break
                    obj = pickle.loads(bytes(buf[4:4 + n]))
                    del buf[:4 + n]
                    if "__mark__" in obj:
                        res.mark = obj["__mark__"]
                    elif "__boot__" in obj:
                        res.boot = obj
                    elif "__done__" in obj:
                        pass
                    elif "harness_exc" in obj:
                        res.harness_exc = obj["harness_exc"]
                    else:
                        res.events.append(obj)
    if timed_out:
        try:
            os.kill(pid, signal.SIGKILL)
        except ProcessLookupError:
            pass
    _, st = os.waitpid(pid, 0)
    if case.get("sandbox"):
        import glob
        import shutil
        for d in glob.glob(os.path.join(os.environ.get("RDSIM_WORK", "/verif/.work"), "sbx", "lt%d-*" % pid)):
            shutil.rmtree(d, ignore_errors=True)
    # drain stderr
    try:
        while True:
            rl, _, _ = select.select([er], [], [], 0)
            if not rl:
                break
            c = os.read(er, 65536)
            if not c:
                break
            err += c
    except OSError:
        pass
    os.close(r)
    os.close(er)
    res.wall = time.time() - t0
    res.stderr = err.decode("utf-8", "replace")[-20000:]
    if timed_out:
        res.status = "timeout"
    elif os.WIFSIGNALED(st):
        res.status = "crash"
        res.signal = os.WTERMSIG(st)
    else:
        res.exitcode = os.WEXITSTATUS(st)
        if res.exitcode == 0:
            res.status = "ok"
        elif res.exitcode == 3 or res.harness_exc:
            res.status = "harness"
        else:
            res.status = "crash"  # e.g. sanitizer exit code / abort handled by runtime
    return res


def run_case(case, libpath, timeout=30.0):
    return [run_lifetime(case, i, libpath, timeout) for i in range(len(case["lifetimes"]))]


# ------------------------------------------------------------------------------------------------ fresh interpreter (F13)
def run_lifetime_fresh(case, lt_index, libpath, timeout=60.0, hashseed=12345):
    """the same lifetime in a brand-new interpreter (no zygote, other PYTHONHASHSEED): import, dlopen and run from scratch"""
    import subprocess
    import tempfile
    import json as _json
    work = os.path.join(os.environ.get("RDSIM_WORK", "/verif/.work"), "fresh")
    os.makedirs(work, exist_ok=True)
    fd, cpath = tempfile.mkstemp(prefix="case-", suffix=".json", dir=work)
    with os.fdopen(fd, "w", encoding="utf-8") as f:
        _json.dump(case, f)
    opath = cpath + ".out"
    env = dict(os.environ)
    env["PYTHONHASHSEED"] = str(hashseed)
    env["STRENGTHS_VERIF"] = "1"
    env["PYTHONPATH"] = "/verif" + (":" + env["PYTHONPATH"] if env.get("PYTHONPATH") else "")
    t0 = time.time()
    res = LifetimeResult()
    try:
        p = subprocess.run(["timeout", "-k", "5", str(int(timeout)), sys.executable, "-m", "rdsim.world", cpath, str(lt_index),
                            libpath, opath], env=env, capture_output=True, text=True, cwd="/verif")
        res.stderr = (p.stderr or "")[-20000:]
        try:
            with open(opath, "rb") as f:
                data = f.read()
        except FileNotFoundError:
            data = b""
        buf = bytearray(data)
        while len(buf) >= 4:
            n = struct.unpack_from("<I", buf, 0)[0]
            if len(buf) < 4 + n:
                break
            obj = pickle.loads(bytes(buf[4:4 + n]))
            del buf[:4 + n]
            if "__mark__" in obj:
                res.mark = obj["__mark__"]
            elif "__boot__" in obj:
                res.boot = obj
            elif "__done__" in obj:
                pass
            elif "harness_exc" in obj:
                res.harness_exc = obj["harness_exc"]
            else:
                res.events.append(obj)
        rc = p.returncode
        if rc == 0:
            res.status = "ok"
        elif rc == 124 or rc == 137:
            res.status = "timeout"
        elif rc == 3 or res.harness_exc:
            res.status = "harness"
        elif rc < 0:
            res.status = "crash"
            res.signal = -rc
        else:
            res.status = "crash"
            res.exitcode = rc
    finally:
        for pth in (cpath, opath):
            try:
                os.unlink(pth)
            except OSError:
                pass
    res.wall = time.time() - t0
    return res


if __name__ == "__main__":
    # python -m rdsim.world <case.json> <lifetime index> <lib> <out file>
    import json as _json
    _case = _json.load(open(sys.argv[1], encoding="utf-8"))
    _fd = os.open(sys.argv[4], os.O_WRONLY | os.O_CREAT | os.O_TRUNC, 0o600)
    _child_main(_case, int(sys.argv[2]), sys.argv[3], _fd, 2)
