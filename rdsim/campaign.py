"""Runs a batch of cases (or one replay file) in a process whose environment was prepared by the caller (sanitizer
runtime preloaded, allocator fill byte, ...) and pickles the records. Used by checks that need several environments."""
import argparse
import json
import os
import pickle
import subprocess
import sys
import time

from . import build


def san_env(fill, extra=None):
    env = dict(os.environ)
    env["LD_PRELOAD"] = build.asan_runtime()
    env["ASAN_OPTIONS"] = ("detect_leaks=0:abort_on_error=1:handle_segv=1:allocator_may_return_null=1:"
                           "malloc_fill_byte=%d:max_malloc_fill_size=4194304:detect_stack_use_after_return=0:"
                           "symbolize=1" % fill)
    env["UBSAN_OPTIONS"] = "print_stacktrace=1:halt_on_error=1:abort_on_error=1"
    env["PYTHONMALLOC"] = "malloc"
    env["STRENGTHS_VERIF"] = "1"
    env["PYTHONHASHSEED"] = "0"
    env["RDSIM_CHILD"] = "1"
    env["PYTHONPATH"] = "/verif" + (":" + env["PYTHONPATH"] if env.get("PYTHONPATH") else "")
    if extra:
        env.update(extra)
    return env


def plain_env(extra=None):
    env = dict(os.environ)
    for k in ("LD_PRELOAD", "ASAN_OPTIONS", "UBSAN_OPTIONS", "PYTHONMALLOC"):
        env.pop(k, None)
    env["STRENGTHS_VERIF"] = "1"
    env["PYTHONHASHSEED"] = "0"
    env["RDSIM_CHILD"] = "1"
    env["PYTHONPATH"] = "/verif" + (":" + env["PYTHONPATH"] if env.get("PYTHONPATH") else "")
    if extra:
        env.update(extra)
    return env


def spawn(args, env, out, wall=3600):
    cmd = ["timeout", "-k", "10", str(int(wall)), sys.executable, "-m", "rdsim.campaign"] + args + ["--out", out]
    log = open(out + ".log", "w")
    return subprocess.Popen(cmd, env=env, stdout=log, stderr=subprocess.STDOUT, cwd="/verif")


def main(argv=None):
    ap = argparse.ArgumentParser()
    ap.add_argument("--pid")
    ap.add_argument("--tier", default="quick")
    ap.add_argument("--seed", type=int, default=1)
    ap.add_argument("--start", type=int, default=0)
    ap.add_argument("--count", type=int, default=10)
    ap.add_argument("--build", default="plain")
    ap.add_argument("--nproc", type=int, default=16)
    ap.add_argument("--replay", default=None)
    ap.add_argument("--out", required=True)
    a = ap.parse_args(argv)
    from . import runner
    t0 = time.time()
    if a.replay:
        doc = json.load(open(a.replay, encoding="utf-8"))
        prof = runner.profile(doc["property"])
        case = doc["case"]
        libs = {"plain": build.build("plain"), a.build: build.build(a.build)}
        case = dict(case, build=a.build)
        viol, stats, results = runner.evaluate(prof, case, libs, prof.timeout("thorough"))
        pickle.dump({"viol": viol, "digest": [r.digest() for r in results],
                     "stderr": [r.stderr for r in results]}, open(a.out, "wb"))
        return 0
    prof = runner.profile(a.pid)
    libs = {"plain": build.build("plain"), a.build: build.build(a.build)}
    os.environ["RDSIM_FORCE_BUILD"] = a.build
    recs = runner.run_pool(a.pid, a.tier, a.seed, list(range(a.start, a.start + a.count)), libs,
                           prof.timeout(a.tier), nproc=a.nproc)
    pickle.dump({"recs": recs, "wall": time.time() - t0}, open(a.out, "wb"))
    return 0


if __name__ == "__main__":
    sys.exit(main())
