"""command line: check <ID> [--tier quick|thorough] | replay <file> | selftest"""
import argparse
import json
import os
import sys
import time

GUARD_ENV = {"STRENGTHS_VERIF": "1", "PYTHONHASHSEED": "0", "RDSIM_CHILD": "1"}


def _reexec_if_needed():
    if os.environ.get("RDSIM_CHILD") == "1" and os.environ.get("PYTHONHASHSEED") == "0":
        return
    env = dict(os.environ)
    env.update(GUARD_ENV)
    env["PYTHONPATH"] = "/verif" + (":" + env["PYTHONPATH"] if env.get("PYTHONPATH") else "")
    os.execve(sys.executable, [sys.executable, "-m", "rdsim"] + sys.argv[1:], env)


def main(argv):
    ap = argparse.ArgumentParser(prog="rdsim")
    sub = ap.add_subparsers(dest="cmd", required=True)
    c = sub.add_parser("check")
    c.add_argument("pid")
    c.add_argument("--tier", default=os.environ.get("VERIF_TIER", "quick"))
    c.add_argument("--cases", type=int, default=None)
    c.add_argument("--start", type=int, default=0)
    c.add_argument("--no-evidence", action="store_true")
    c.add_argument("--no-shrink", action="store_true")
    r = sub.add_parser("replay")
    r.add_argument("path")
    s = sub.add_parser("selftest")
    s.add_argument("--cases", type=int, default=60)
    a = ap.parse_args(argv)
    _reexec_if_needed()
    from . import checkcmd
    if a.cmd == "check":
        return checkcmd.cmd_check(a)
    if a.cmd == "replay":
        return checkcmd.cmd_replay(a)
    if a.cmd == "selftest":
        return checkcmd.cmd_selftest(a)
    return 2
