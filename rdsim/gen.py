"""Workload generator: physical spec (SI) -> rendered strengths dictionaries under a drawn assignment of units.

Everything here is a pure function of the Stream objects passed in."""
import math

from . import si
from .models import Model

LABELS = ["A", "B", "C", "Dx", "E1", "F", "G_", "H2"]
ENVS = ["cyt", "mem", "ext"]

DEFAULT_P = dict(
    n_species=(1, 4), n_reactions=(0, 3), max_order=3, n_envs=(1, 3),
    p_graph=0.4, max_cells=12, max_dim=4, allow_len1_periodic=True, allow_len2_periodic=True,
    graph_nodes=(1, 6), graph_edges=(0, 8), allow_self_loops=False, allow_parallel=False,
    p_zero_surface=0.08,     # graph edges with surface 0
    chem="mixed",            # none | species | entry | mixed
    state="mixed",           # default | explicit | mixed
    integer_state=False,     # explicit states are integer molecule counts
    n_mol=(1.0, 500.0),      # molecules per (species, cell) scale
    p_zero_D=0.15, p_zero_k=0.15, p_zero_dens=0.15,
    rate_scale=(0.02, 1.0),  # per-molecule rates in 1/s
    units="rich",            # rich | plain
)


def _merge(p):
    q = dict(DEFAULT_P)
    if p:
        q.update(p)
    return q


def draw_reactions(rs, labels, nenv, ctyp, p, nr):
    """nr random reactions over the given species labels (module-level so that sibling networks can be drawn)"""
    reactions = []
    for ri in range(nr):
        def side():
            order = rs.wchoice([(0, 1), (1, 4), (2, 4), (3, 2), (4, 1)])
            order = min(order, p["max_order"])
            dct = {}
            for _ in range(order):
                l = rs.choice(labels)
                dct[l] = dct.get(l, 0) + 1
            return dct
        sub = side()
        prod = side()
        if p.get("templates", 0.0) and rs.chance(p["templates"]):
            # structured reactions, so that non-trivial conservation laws exist
            a, b, c = (rs.choice(labels), rs.choice(labels), rs.choice(labels))
            tpl = rs.choice(["iso", "assoc", "dimer", "cat", "exch"])
            if tpl == "iso":
                sub, prod = {a: 1}, {b: 1}
            elif tpl == "assoc":
                sub, prod = {}, {c: 1}
                for l in (a, b):
                    sub[l] = sub.get(l, 0) + 1
            elif tpl == "dimer":
                sub, prod = {a: 2}, {b: 1}
            elif tpl == "cat":
                sub, prod = {}, {}
                for l in (a, c):
                    sub[l] = sub.get(l, 0) + 1
                for l in (b, c):
                    prod[l] = prod.get(l, 0) + 1
            else:
                sub, prod = {}, {}
                for l in (a, b):
                    sub[l] = sub.get(l, 0) + 1
                for l in (b, b):
                    prod[l] = prod.get(l, 0) + 1
            if p["max_order"] < 2 and sum(sub.values()) > p["max_order"]:
                sub, prod = {a: 1}, {b: 1}
        if not sub and not prod:
            prod = {rs.choice(labels): 1}

        def kvals(order):
            base = rs.loguniform(*p["rate_scale"]) * ctyp ** (1 - order)
            if rs.chance(0.5):
                ks = [base] * nenv
            else:
                ks = [base * rs.loguniform(0.2, 5.0) for _ in range(nenv)]
            return [0.0 if rs.chance(p["p_zero_k"]) else v for v in ks]
        kf = kvals(sum(sub.values()))
        kr = kvals(sum(prod.values())) if rs.chance(0.6) else [0.0] * nenv
        reactions.append({"label": ("r%d" % ri) if rs.chance(0.5) else None, "sub": sub, "prod": prod,
                          "kf": kf, "kr": kr})

    return reactions


# --------------------------------------------------------------------------------------------- physical spec
def gen_spec(rs, p=None):
    p = _merge(p)
    ns = rs.randint(*p["n_species"])
    nenv = rs.randint(*p["n_envs"])
    envs = ENVS[:nenv]
    labels = rs.shuffle(LABELS)[:ns]
    if ns > len(labels):
        # many species: plain numbered names after the usual ones
        labels = labels + ["S%d" % k for k in range(len(labels), ns)]

    # ---- space
    if rs.chance(p["p_graph"]):
        nn = rs.randint(*p["graph_nodes"])
        nn = min(nn, p["max_cells"])
        vbase = rs.loguniform(0.2, 5.0) * 1e-6
        nodes = [{"vol": (vbase * rs.loguniform(0.3, 3.0)) ** 3, "env": rs.randint(0, nenv - 1)} for _ in range(nn)]
        ne = rs.randint(*p["graph_edges"])
        edges = []
        seen = set()
        for _ in range(ne):
            i = rs.randint(0, nn - 1)
            j = rs.randint(0, nn - 1)
            if i == j and not p["allow_self_loops"]:
                continue
            key = (min(i, j), max(i, j))
            if key in seen and not p["allow_parallel"]:
                continue
            seen.add(key)
            edges.append({"i": i, "j": j, "S": (vbase * rs.loguniform(0.3, 3.0)) ** 2,
                          "dist": vbase * rs.loguniform(0.3, 3.0)})
        rg = rs.sub("gate")
        for e_ in edges:
            if rg.chance(p["p_zero_surface"]):
                e_["S"] = 0.0       # a closed gate: a valid edge across which nothing diffuses
        space = {"type": "graph", "nodes": nodes, "edges": edges}
        nc = nn
        vols = [n["vol"] for n in nodes]
        cenv = [n["env"] for n in nodes]
    else:
        while True:
            w = rs.randint(1, p["max_dim"])
            h = rs.randint(1, p["max_dim"]) if rs.chance(0.6) else 1
            d = rs.randint(1, p["max_dim"]) if rs.chance(0.35) else 1
            if w * h * d <= p["max_cells"]:
                break
        dims = rs.shuffle([w, h, d])
        w, h, d = dims
        bc = []
        for L in (w, h, d):
            per = rs.chance(0.4)
            if per and L == 1 and not p["allow_len1_periodic"]:
                per = False
            if per and L == 2 and not p["allow_len2_periodic"]:
                per = False
            bc.append("periodical" if per else "reflecting")
        nc = w * h * d
        if rs.chance(0.3):
            cenv = [rs.randint(0, nenv - 1)] * nc
        else:
            cenv = [rs.randint(0, nenv - 1) for _ in range(nc)]
        vol = (rs.loguniform(0.2, 5.0) * 1e-6) ** 3
        space = {"type": "grid", "w": w, "h": h, "d": d, "bc": bc, "cell_env": cenv, "vol": vol}
        vols = [vol] * nc
    vtyp = math.exp(sum(math.log(v) for v in vols) / len(vols))
    htyp = vtyp ** (1.0 / 3.0)
    ntyp = rs.loguniform(*p["n_mol"])
    ctyp = ntyp / vtyp  # molecules / m3

    # ---- species
    species = []
    for l in labels:
        Dbase = rs.loguniform(*p["rate_scale"]) * htyp * htyp
        if rs.chance(0.5):
            Ds = [Dbase] * nenv
        else:
            Ds = [Dbase * rs.loguniform(0.2, 5.0) for _ in range(nenv)]
        Ds = [0.0 if rs.chance(p["p_zero_D"]) else v for v in Ds]
        dbase = ctyp * rs.loguniform(0.2, 5.0)
        if rs.chance(0.5):
            dens = [dbase] * nenv
        else:
            dens = [dbase * rs.loguniform(0.2, 5.0) for _ in range(nenv)]
        dens = [0.0 if rs.chance(p["p_zero_dens"]) else v for v in dens]
        chst = [0] * nenv
        species.append({"label": l, "D": Ds, "dens": dens, "chst": chst})

    # ---- reactions
    nr = rs.randint(*p["n_reactions"])
    reactions = draw_reactions(rs, labels, nenv, ctyp, p, nr)
    spec = {"envs": envs, "species": species, "reactions": reactions, "space": space, "state": None, "chem": None}

    # ---- chemostats
    mode = p["chem"]
    if mode == "mixed":
        mode = rs.wchoice([("none", 3), ("species", 2), ("entry", 3), ("cleared", 1)])
    if mode == "cleared":
        # species-level flags are set but the system carries an explicit, (almost) all-zero map: the map wins
        for s in species:
            if rs.chance(0.6):
                s["chst"] = [1 if rs.chance(0.7) else 0 for _ in range(nenv)]
        spec["chem"] = [1 if rs.chance(0.05) else 0 for _ in range(ns * nc)]
        mode = "done"
    if mode == "species":
        for s in species:
            if rs.chance(0.35):
                if rs.chance(0.5):
                    s["chst"] = [1] * nenv
                else:
                    s["chst"] = [1 if rs.chance(0.5) else 0 for _ in range(nenv)]
    elif mode == "entry":
        pe = rs.choice([0.1, 0.3, 0.6])
        spec["chem"] = [1 if rs.chance(pe) else 0 for _ in range(ns * nc)]

    # ---- state
    smode = p["state"]
    if smode == "mixed":
        smode = rs.wchoice([("default", 1), ("explicit", 1)])
    if smode == "explicit" or p["integer_state"]:
        st = []
        for s in range(ns):
            for i in range(nc):
                if rs.chance(0.15):
                    v = 0.0
                else:
                    v = ntyp * rs.loguniform(0.1, 3.0)
                if p["integer_state"] == "half":
                    v = float(int(v)) + (0.5 if rs.chance(0.6) else 0.0)      # whole and exactly-half amounts mixed
                elif p["integer_state"]:
                    v = float(int(v + 0.5))
                st.append(v)
        spec["state"] = st
    return spec


# --------------------------------------------------------------------------------------------- units
def draw_us(ru):
    return {"space": ru.choice(si.SPACE_L), "time": ru.choice(si.TIME_L), "quantity": ru.choice(si.QUANTITY_L)}


def draw_us_mild(ru):
    """units systems that keep magnitudes moderate"""
    return {"space": ru.choice(["mm", "µm", "nm", "dmm", "cmm", "cm"]), "time": ru.choice(["s", "ms", "min", "ds", "h"]),
            "quantity": ru.choice(["molecule", "fmol", "pmol", "nmol", "µmol", "mol"])}


class UnitsPlan:
    """decides, for each level, how the 'units' key is written and what the effective units system is."""

    def __init__(self, ru, rich=True, drawer=None):
        self.ru = ru
        self.rich = rich
        self.drawer = drawer or draw_us

    def level(self, parent_eff):
        """returns (value_for_units_key or None for absent, effective units system)"""
        if not self.rich:
            return None, parent_eff
        c = self.ru.wchoice([("absent", 3), ("inherit", 1), ("default", 1), ("explicit", 3)])
        if c == "absent":
            return None, parent_eff
        if c == "inherit":
            return "inherit", parent_eff
        if c == "default":
            return "default", dict(si.DEFAULT_US)
        us = self.drawer(self.ru)
        return dict(us), us


def _num(x):
    return float(x)


class Renderer:
    def __init__(self, ru, rich=True, explicit_p=0.3, drawer=None, aliases=True):
        self.ru = ru
        self.rich = rich
        self.explicit_p = explicit_p if rich else 0.0
        self.drawer = drawer or draw_us
        self.plan = UnitsPlan(ru, rich, self.drawer)
        self.aliases = aliases and rich

    def key(self, names):
        if self.aliases:
            return self.ru.choice(names)
        return names[0]

    def ukey(self):
        return self.key(["units", "units_system", "units system", "u"])

    def val(self, sival, dim, owner_us, family=None):
        """a dimensioned scalar: bare number in the owner's units, or explicit-unit string"""
        if self.ru.chance(self.explicit_p):
            us = self.drawer(self.ru)
            if family == "density" and self.ru.chance(0.4):
                sym = self.ru.choice(list(si.MOLAR))
                f = si.QUANTITY[si.MOLAR[sym]] / (si.SPACE["dm"] ** 3)
                return "%r %s" % (sival / f, sym)
            if family == "volume" and self.ru.chance(0.4):
                sym = self.ru.choice(list(si.LITRE))
                f = si.SPACE[si.LITRE[sym]] ** 3
                return "%r %s" % (sival / f, sym)
            ustr = si.unit_string(us, dim, style=self.ru.randint(0, 1))
            return "%r %s" % (si.to_units(sival, us, dim), ustr)
        return _num(si.to_units(sival, owner_us, dim))

    def envval(self, sivals, envs, dim, owner_us, family=None):
        """per-environment quantity: scalar if all equal (sometimes), else dict with optional 'default'/comma keys"""
        alleq = all(v == sivals[0] for v in sivals)
        if alleq and self.ru.chance(0.7):
            return self.val(sivals[0], dim, owner_us, family)
        d = {}
        # group equal values
        groups = {}
        for e, v in zip(envs, sivals):
            groups.setdefault(v, []).append(e)
        items = list(groups.items())
        use_default = self.ru.chance(0.4)
        default_v = None
        if use_default:
            default_v = self.ru.choice(items)[0]
        for v, es in items:
            if use_default and v == default_v:
                continue
            if v == 0.0 and not use_default and self.ru.chance(0.5):
                continue  # omitted environment without 'default' -> 0
            if len(es) > 1 and self.ru.chance(0.5):
                d[", ".join(es)] = self.val(v, dim, owner_us, family)
            else:
                for e in es:
                    d[e] = self.val(v, dim, owner_us, family)
        if use_default:
            d["default"] = self.val(default_v, dim, owner_us, family)
        if not d:
            return self.val(0.0, dim, owner_us, family)
        if len(d) > 1 and self.ru.sub("order", len(d), sorted(d)[0]).chance(0.5):
            # key order is the writer's business: 'default' first, environments in any order
            keys = self.ru.sub("order2", len(d), sorted(d)[0]).shuffle(list(d))
            d = {k: d[k] for k in keys}
        return d

    def network(self, spec, parent_eff):
        envs = spec["envs"]
        nd = {}
        uk, eff = self.plan.level(parent_eff)
        if uk is not None:
            nd[self.ukey()] = uk
        sl = []
        for s in spec["species"]:
            sd = {self.key(["label", "l"]): s["label"]}
            suk, seff = self.plan.level(eff)
            if suk is not None:
                sd[self.ukey()] = suk
            if any(v != 0 for v in s["D"]) or self.ru.chance(0.5):
                sd[self.key(["D", "diff_coef", "diffusion_coefficient", "diff coef", "diffusion coefficient"])] = \
                    self.envval(s["D"], envs, si.DIM_DIFF, seff)
            if any(v != 0 for v in s["dens"]) or self.ru.chance(0.5):
                sd[self.key(["density", "concentration", "dens", "conc", "C"])] = \
                    self.envval(s["dens"], envs, si.DIM_DENSITY, seff, family="density")
            if any(s["chst"]):
                if all(s["chst"]) and self.ru.chance(0.6):
                    sd[self.key(["chstt", "chemostat"])] = True
                else:
                    cd = {e: bool(c) for e, c in zip(envs, s["chst"]) if c or self.ru.chance(0.5)}
                    if self.rich and self.ru.chance(0.4):
                        # 'default' fallback with explicit exceptions (the documented form): flagged by default, the
                        # environments that are not flagged say so explicitly
                        dv = self.ru.chance(0.7)
                        cd = {"default": dv}
                        for e, c in zip(envs, s["chst"]):
                            if bool(c) != dv:
                                cd[e] = bool(c)
                            elif self.ru.chance(0.3):
                                cd[e] = bool(c)
                    sd[self.key(["chstt", "chemostat"])] = cd
            sl.append(sd)
        nd["species"] = sl
        rl = []
        for r in spec["reactions"]:
            rd = {}
            ruk, reff = self.plan.level(eff)
            if ruk is not None:
                rd[self.ukey()] = ruk
            if r["label"] is not None:
                rd[self.key(["label", "l"])] = r["label"]
            rd[self.key(["stoichiometry", "eq", "sto", "equation"])] = self.equation(r)
            osub = sum(r["sub"].values())
            oprod = sum(r["prod"].values())
            rd[self.key(["k+", "kf"])] = self.envval(r["kf"], envs, si.dim_k(osub), reff)
            if any(v != 0 for v in r["kr"]) or self.ru.chance(0.5):
                rd[self.key(["k-", "kr"])] = self.envval(r["kr"], envs, si.dim_k(oprod), reff)
            rl.append(rd)
        nd["reactions"] = rl
        if not (envs == [""]):
            nd[self.key(["environments", "env"])] = list(envs)
        return nd, eff

    def equation(self, r):
        def side(d):
            toks = []
            for l, n in d.items():
                if self.rich and n > 1 and self.ru.chance(0.3):
                    # repeated species written several times
                    k = self.ru.randint(1, n - 1)
                    toks.append((k, l))
                    toks.append((n - k, l))
                else:
                    toks.append((n, l))
            if self.rich:
                toks = self.ru.shuffle(toks)
            return " + ".join((l if (n == 1 and self.ru.chance(0.8)) else "%d %s" % (n, l)) for n, l in toks)
        return side(r["sub"]) + " -> " + side(r["prod"])

    def space(self, spec, parent_eff):
        sp = spec["space"]
        sd = {}
        uk, eff = self.plan.level(parent_eff)
        if uk is not None:
            sd[self.ukey()] = uk
        if sp["type"] == "grid":
            if self.ru.chance(0.5):
                sd["type"] = "grid"
            sd[self.key(["w", "width"])] = sp["w"]
            if sp["h"] != 1 or self.ru.chance(0.5):
                sd[self.key(["h", "height"])] = sp["h"]
            if sp["d"] != 1 or self.ru.chance(0.5):
                sd[self.key(["d", "depth"])] = sp["d"]
            ce = sp["cell_env"]
            if all(c == ce[0] for c in ce) and self.ru.chance(0.5):
                if ce[0] != 0 or self.ru.chance(0.5):
                    sd[self.key(["cell_env", "cell_environments", "cell environments", "environments", "env"])] = ce[0]
            else:
                sd[self.key(["cell_env", "cell_environments", "cell environments", "environments", "env"])] = list(ce)
            sd[self.key(["cell_volume", "cell_vol"])] = self.val(sp["vol"], si.DIM_VOLUME, eff, family="volume")
            bcd = {}
            for ax, b in zip("xyz", sp["bc"]):
                if b != "reflecting" or self.ru.chance(0.3):
                    bcd[ax] = b
            if bcd or self.ru.chance(0.3):
                sd["boundary_conditions"] = bcd
        else:
            sd["type"] = "graph"
            nl = []
            for n in sp["nodes"]:
                nd = {}
                nuk, neff = self.plan.level(eff)
                if nuk is not None:
                    nd[self.ukey()] = nuk
                nd[self.key(["volume", "vol"])] = self.val(n["vol"], si.DIM_VOLUME, neff, family="volume")
                if n["env"] != 0 or self.ru.chance(0.5):
                    nd[self.key(["environment", "env"])] = n["env"]
                nl.append(nd)
            el = []
            for e in sp["edges"]:
                ed = {"nodes": [e["i"], e["j"]]}
                euk, eeff = self.plan.level(eff)
                if euk is not None:
                    ed[self.ukey()] = euk
                ed["surface"] = self.val(e["S"], si.DIM_SURFACE, eeff)
                ed["distance"] = self.val(e["dist"], si.DIM_LENGTH, eeff)
                el.append(ed)
            sd["nodes"] = nl
            sd["edges"] = el
        return sd, eff

    def system(self, spec, parent_eff=None):
        """returns (dict for rdsystem_from_dict, parent units system dict to pass, info)"""
        if parent_eff is None:
            parent_eff = self.drawer(self.ru) if (self.rich and self.ru.chance(0.5)) else dict(si.DEFAULT_US)
        d = {}
        uk, eff = self.plan.level(parent_eff)
        if uk is not None:
            d[self.ukey()] = uk
        nd, neff = self.network(spec, eff)
        d[self.key(["network", "rdnetwork"])] = nd
        sd, seff = self.space(spec, eff)
        d[self.key(["space", "rdspace"])] = sd
        if spec.get("state") is not None:
            if self.ru.chance(self.explicit_p + 0.2 if self.rich else 0.0):
                us = self.drawer(self.ru)
                d["state"] = {"value": [si.to_units(v, us, si.DIM_QUANTITY) for v in spec["state"]],
                              "units": us["quantity"]}
            else:
                d["state"] = [si.to_units(v, eff, si.DIM_QUANTITY) for v in spec["state"]]
        if spec.get("chem") is not None:
            # a flag is any non-zero integer (set_chemostat takes "int or bool")
            rfl = self.ru.sub("flagvalues")
            big = self.rich and rfl.chance(0.3)
            d["chemostats"] = [(int(c) * (rfl.choice([1, 1, 2, 5]) if big else 1)) for c in spec["chem"]]
        return d, parent_eff, {"sys_eff": eff, "net_eff": neff, "space_eff": seff}


# --------------------------------------------------------------------------------------------- magnitude guard
def boundary_numbers_ok(spec, engine_us, lo=1e-200, hi=1e200):
    """every number that crosses the C boundary, expressed in engine units, within [lo, hi] (or zero)"""
    m = Model(spec)
    vals = []
    for v in m.V:
        vals.append(si.to_units(v, engine_us, si.DIM_VOLUME))
    for a in range(m.nh):
        o = int(m.order[a])
        for kv in m.halves[a][2]:
            kk = si.to_units(kv, engine_us, si.dim_k(o))
            vals.append(kk)
            for v in m.V:
                vv = si.to_units(v, engine_us, si.DIM_VOLUME)
                vals.append(kk * vv ** (1 - o))
                vals.append(vv ** (1 - o))
    for s in range(m.ns):
        for dv in m.D[s]:
            vals.append(si.to_units(dv, engine_us, si.DIM_DIFF))
    for v in m.x0.ravel():
        vals.append(si.to_units(v, engine_us, si.DIM_QUANTITY))
    if spec["space"]["type"] == "graph":
        for e in spec["space"]["edges"]:
            vals.append(si.to_units(e["S"], engine_us, si.DIM_SURFACE))
            vals.append(si.to_units(e["dist"], engine_us, si.DIM_LENGTH))
    for v in vals:
        if v != 0 and not (lo <= abs(v) <= hi):
            return False
        if v != v or v in (float("inf"), float("-inf")):
            return False
    return True


def stiffness(model, x=None):
    """max over free entries of sum|terms| / max(x, 1): an inverse time scale (1/s) for choosing dt"""
    import numpy as np
    if x is None:
        x = model.x0
    _, scale = model.f(x, want_scale=True)
    lam = scale / np.maximum(np.abs(x), 1.0)
    return float(lam.max()) if lam.size else 0.0


# --------------------------------------------------------------------------------------------- scripts
POLICIES = ["on_t_sample", "on_iteration", "on_interval", "no_sampling"]


def engine_units(us, kind):
    eu = dict(us)
    if kind != "euler":
        eu["quantity"] = "molecule"
    return eu


def gen_script(rk, spec, kind, p=None):
    """draws the physical script (SI seconds) for a spec. returns script_phys"""
    p = p or {}
    m = Model(spec)
    steps = rk.randint(*p.get("steps", (5, 40)))
    if kind == "gillespie":
        x0 = m.x0.round() if p.get("round_x0", True) else m.x0
        a0 = m.a0(x0)
        tscale = 1.0 / a0 if a0 > 0 else 1.0
        dt = tscale * rk.loguniform(0.3, 3.0)       # not used by the engine for stepping
        t_end = steps * tscale
        # bound the expected number of events: mean-field integration of the total propensity (autocatalytic
        # networks would otherwise turn a '30 event' script into millions of events)
        import numpy as np
        budget = p.get("event_budget", 8.0 * steps + 50.0)
        x = np.array(x0, dtype=float)
        tt, evs, hh = 0.0, 0.0, t_end / 200.0
        for _k in range(200):
            xc = np.maximum(x, 0.0)
            a0k = m.a0(xc)
            if not np.isfinite(a0k) or evs + a0k * hh > budget:
                t_end = max(tt, hh)
                break
            evs += a0k * hh
            x = xc + hh * m.f(xc)
            tt += hh
        unit = t_end / steps
    else:
        lam = stiffness(m)
        c = rk.loguniform(*p.get("courant", (0.01, 0.15)))
        dt = c / lam if lam > 0 else rk.loguniform(0.01, 1.0)
        # stability pre-check with the reference Euler model: keep the planned run bounded and non-negative
        import numpy as np
        bound = 50.0 * (float(np.abs(m.x0).max()) + 10.0)
        overshoot = kind == "tauleap" and rk.chance(p.get("tauleap_overshoot", 0.0))
        if overshoot:
            # a deliberately coarse step: tau-leap draws may exceed what a cell holds (entries go negative); valid, and the
            # regime where guards against non-positive means and negative populations matter. The mean-field trajectory
            # must stay bounded (a coarse step on an autocatalytic network explodes towards counts beyond int range,
            # outside what is treated as a valid stochastic script)
            dt0 = dt
            # per-molecule outflow rate of the linear channels (diffusion out of a cell, first-order reactions): the
            # explicit scheme oscillates with growing amplitude beyond dt*rate = 2, so the coarse step stays below 1
            lin = 0.0
            if len(m.faces):
                out = np.zeros((m.ns, m.nc))
                for s_ in range(m.ns):
                    np.add.at(out[s_], m.f_i, m.kd[s_])
                lin = float(out.max())
            for a_ in range(m.nh):
                if int(m.order[a_]) == 1:
                    lin = max(lin, float(m.kcell[a_].max()))
            rate = max(lam, lin)
            dt = rk.uniform(0.4, 0.95) / rate if rate > 0 else dt
            for _ in range(5):
                x = m.x0.copy()
                ok = True
                for _k in range(int(steps * 1.4) + 3):
                    x = m.euler_step(np.maximum(x, 0.0), dt)
                    if not np.all(np.isfinite(x)) or np.abs(x).max() > 20.0 * (float(np.abs(m.x0).max()) + 10.0):
                        ok = False
                        break
                if ok:
                    break
                dt *= 0.5
            else:
                dt = dt0
                overshoot = False
        for _ in range(0 if overshoot else 6):
            x = m.x0.copy()
            ok = True
            for _k in range(int(steps * 1.4) + 3):
                x = m.euler_step(x, dt)
                if not np.all(np.isfinite(x)) or np.abs(x).max() > bound or x.min() < -1e-6:
                    ok = False
                    break
            if ok:
                break
            dt *= 0.2
        t_end = steps * dt
        unit = dt
    policy = p.get("policy") or rk.wchoice([("on_t_sample", 4), ("on_iteration", 2), ("on_interval", 2),
                                            ("no_sampling", 1)])
    # requested times: k + frac steps
    nreq = rk.randint(*p.get("nreq", (1, 8)))
    ongrid = rk.chance(p.get("p_ongrid", 0.1))
    ts = []
    for _ in range(nreq):
        k = rk.randint(0, steps)
        frac = 0.0 if ongrid else rk.uniform(0.15, 0.85)
        ts.append((k + frac) * unit)
    if rk.chance(0.5):
        ts.append(0.0)
    if rk.chance(0.3) and ts:
        ts.append(rk.choice(ts))            # duplicate
    if rk.chance(0.3) and ts:
        b = rk.choice(ts)
        ts.append(b + 0.01 * unit)          # cluster inside one step
        ts.append(b + 0.02 * unit)
    ts = sorted(ts)
    if p.get("allow_empty_ts", False) and rk.chance(0.15):
        ts = []
    t_max = None
    if not ts or rk.chance(p.get("p_explicit_tmax", 0.4)):
        k = rk.randint(1, max(1, int(steps * 1.3)))
        t_max = (k + (0.0 if ongrid else rk.uniform(0.15, 0.85))) * unit
    interval = (rk.randint(0, 4) + rk.uniform(0.15, 0.85)) * unit
    if rk.chance(p.get("p_tiny_interval", 0.0)):
        interval = unit * 10.0 ** rk.uniform(-12.0, -9.5)     # t/interval exceeds 2^31 within a few steps: every step records
    seed = rk.bits(31) if rk.chance(p.get("p_seed", 0.9)) else None
    if rk.chance(0.1):
        seed = rk.bits(32)  # above int range: wraps in c_int
    if seed is not None and rk.chance(0.08):
        seed = rk.choice([0, 0, 1, 2 ** 31 - 1, 2 ** 31, 2 ** 32 - 1])   # boundary seeds (0 is a legal explicit seed)
    if rk.chance(p.get("p_zero_tmax", 0.04)):
        # degenerate but valid: the run is over after the first step (t_max = 0, explicitly or as the last requested time)
        if rk.chance(0.5):
            ts = [0.0]
            t_max = None
        else:
            t_max = 0.0
    isp = p.get("isp") or rk.wchoice([("auto", 5), ("none", 1), ("redist", 1), ("Poisson", 1)])
    if kind != "euler" and isp == "none":
        # a stochastic engine fed an unprocessed state is only meaningful when that state already consists of
        # non-negative integers (otherwise molecule counts go negative and propensities lose their meaning)
        import numpy as _np
        if not _np.all(m.x0 == _np.floor(m.x0)):
            # (tau-leap tolerates fractional amounts - its guards turn non-positive means into zero draws - so some
            #  profiles keep 'none' there: the state must then be passed through untouched)
            if not (kind == "tauleap" and rk.chance(p.get("tauleap_fractional_none", 0.0))):
                isp = "auto"
    return {"kind": kind, "dt": dt, "t_sample": ts, "t_max": t_max, "policy": policy, "interval": interval,
            "seed": seed, "isp": isp, "ongrid": ongrid, "steps": steps}


def render_script(ru, sp, us, rich=True, explicit_p=0.25):
    """script kwargs (JSON) for RDScript, numbers expressed in the script's units system `us`"""
    def tval(v):
        if rich and ru.chance(explicit_p):
            u2 = draw_us(ru)
            return "%r %s" % (si.to_units(v, u2, si.DIM_TIME), u2["time"])
        return float(si.to_units(v, us, si.DIM_TIME))
    kw = {"units_system": dict(us)}
    if rich and ru.chance(0.15) and sp["t_sample"]:
        u2 = draw_us(ru)
        kw["t_sample"] = {"__ua__": {"value": [si.to_units(v, u2, si.DIM_TIME) for v in sp["t_sample"]],
                                     "units": u2["time"]}}
    else:
        # (a python list mixing numbers and unit strings is not usable as t_sample: numpy turns it into a
        #  string array; UnitValue objects are, so explicit-unit elements are sent as UnitValue markers)
        kw["t_sample"] = [({"__uv__": x} if isinstance(x, str) else x) for x in (tval(v) for v in sp["t_sample"])]
    kw["time_step"] = tval(sp["dt"])
    if sp["t_max"] is not None:
        kw["t_max"] = tval(sp["t_max"])
    elif ru.chance(0.3):
        kw["t_max"] = "default"
    kw["sampling_policy"] = sp["policy"]
    if sp["policy"] == "on_interval" or ru.chance(0.3):
        kw["sampling_interval"] = tval(sp["interval"])
    kw["rng_seed"] = sp["seed"]
    if sp["isp"] != "auto" or ru.chance(0.3):
        kw["init_state_processing"] = sp["isp"]
    return kw


def sibling_spec(rs, spec, p=None, nr_delta=0):
    """same species labels, environments and space, same NUMBER of reactions, but re-drawn stoichiometry and constants
    (and state): what a second set-up on the same engine object with a related model looks like"""
    import copy
    p = _merge(p)
    s = copy.deepcopy(spec)
    if len(s["species"]) >= 2 and rs.sub("perm").chance(0.25):
        # the same reactions (same equations, same constants) over the same species declared in another order
        order = rs.sub("perm2").shuffle(list(range(len(s["species"]))))
        m0 = Model(spec)
        s["species"] = [s["species"][k] for k in order]
        for key in ("state", "chem"):
            if s.get(key) is not None:
                arr = s[key]
                s[key] = [arr[k * m0.nc + i] for k in order for i in range(m0.nc)]
        return s
    labels = [x["label"] for x in s["species"]]
    nenv = len(s["envs"])
    m = Model(spec)
    vtyp = float(m.V.mean())
    ntyp = max(1.0, float(abs(m.x0).mean()))
    s["reactions"] = draw_reactions(rs, labels, nenv, ntyp / vtyp, p, max(0, len(spec["reactions"]) + nr_delta))
    if s["space"]["type"] == "grid" and rs.chance(0.6):
        # same shape, other boundary conditions (what a table cached by shape alone would get wrong)
        k = rs.randint(0, 2)
        bc = list(s["space"]["bc"])
        bc[k] = "reflecting" if bc[k] == "periodical" else "periodical"
        if not (bc[k] == "periodical" and [s["space"]["w"], s["space"]["h"], s["space"]["d"]][k] == 1
                and not p["allow_len1_periodic"]):
            s["space"]["bc"] = bc
    if s.get("state") is not None:
        s["state"] = [v * rs.loguniform(0.5, 2.0) for v in s["state"]]
        if p["integer_state"] == "half":
            s["state"] = [float(int(v)) + (0.5 if rs.chance(0.6) else 0.0) for v in s["state"]]
        elif p["integer_state"]:
            s["state"] = [float(int(v + 0.5)) for v in s["state"]]
    return s
