"""implementation of the check / replay / selftest commands"""
import json
import os
import sys
import time
import traceback

from . import build, runner, shrink

KNOWN = os.path.join(os.path.dirname(os.path.dirname(os.path.abspath(__file__))), "known_findings.json")


def load_known():
    try:
        return json.load(open(KNOWN, encoding="utf-8"))
    except FileNotFoundError:
        return {"findings": [], "fixed": []}


def match_known(pid, case, v, known):
    """a violation is a known finding only if the profile's own signature function says so"""
    prof = runner.profile(pid)
    if not hasattr(prof, "known_signature"):
        return None
    sigs = prof.known_signature(case, v)
    for k in known.get("findings", []):
        if k["property"] == pid and k["signature"] in sigs:
            return k
    return None


def determinism_smoke(pid, tier, seed, libs, n, timeout):
    """the same cases twice, different worker counts: event-log digests must be identical"""
    idx = list(range(n))
    a = runner.run_pool(pid, tier, seed, idx, libs, timeout, nproc=runner.NPROC, chunk=4)
    b = runner.run_pool(pid, tier, seed, idx, libs, timeout, nproc=max(1, runner.NPROC // 4), chunk=3)
    bad = [x["index"] for x, y in zip(a, b) if x["digest"] != y["digest"]]
    return bad, a


def cmd_check(a):
    pid = a.pid.upper()
    tier = a.tier
    seed = int(os.environ.get("VERIF_SEED", "1"))
    prof = runner.profile(pid)
    t0 = time.time()
    try:
        kinds = prof.build_kinds(tier) if hasattr(prof, "build_kinds") else ["plain"]
        libs = {k: build.build(k) for k in set(kinds) | {"plain"}}
    except Exception as e:
        print("HARNESS-ERROR build failed: %s" % e)
        return 2
    timeout = prof.timeout(tier)
    known = load_known()
    if hasattr(prof, "run_check"):
        # profiles with their own campaign structure (several builds / environments)
        return prof.run_check(a, tier, seed, libs, known)
    n = a.cases if a.cases is not None else prof.n_cases(tier)
    nsmoke = min(n, 48 if tier == "quick" else 400)
    bad, first = determinism_smoke(pid, tier, seed, libs, nsmoke, timeout)
    nondet = []
    if bad and not getattr(prof, "NONDET_IS_VIOLATION", False):
        # not this property's business by itself (C08/C11 own it); the oracles still run on every case. If they find
        # nothing the run is reported as a harness-level error, never as a pass.
        nondet = bad
    for r in first:
        if r["index"] in bad and getattr(prof, "NONDET_IS_VIOLATION", False):
            # the harness is deterministic on its own (selftest); for this property a repeated execution of the very
            # same case that yields another event log is the violation itself
            r["viol"].append({"class": "violation", "oracle": pid + ".repeatable", "lifetime": None,
                              "detail": "two executions of the same concrete case produced different event logs"})
            r["case"] = prof.generate(seed, tier, r["index"])
    idx = list(range(a.start + nsmoke, a.start + n))
    recs = first + runner.run_pool(pid, tier, seed, idx, libs, timeout, stop_after_timeouts=10 if tier == "quick" else 40)
    rc = finish(pid, tier, seed, prof, recs, libs, timeout, known, t0, a, extra_cov={"determinism_smoke_cases": nsmoke})
    if nondet:
        print("NONDETERMINISM: event logs of cases %s differ between two executions of the same concrete case" % nondet[:10])
        if rc == 0:
            print("HARNESS-ERROR the executions are not repeatable on this tree; no verdict")
            rc = 2
    return rc


def finish(pid, tier, seed, prof, recs, libs, timeout, known, t0, a, extra_cov=None):
    total = {}
    samples = []
    failing = []
    harness = []
    for r in recs:
        runner.merge_stats(total, r["stats"])
        if r.get("sample") is not None and len(samples) < 3:
            samples.append(r["sample"])
        hv = [v for v in r["viol"] if v.get("class") == "harness"]
        if hv:
            harness.append((r, hv))
        elif r["viol"]:
            failing.append(r)
    if harness:
        r, hv = harness[0]
        print("HARNESS-ERROR case %d: %s" % (r["index"], hv[0]["detail"][-3000:]))
        print("(%d cases with harness errors)" % len(harness))
        return 2
    n_viol = 0
    dismissed = set()       # cases whose wall-budget overrun returned in time when executed again
    known_lines = {}
    reported = set()
    exit_code = 0
    for r in failing:
        case = r["case"]
        for v in r["viol"]:
            k = match_known(pid, case, v, known)
            if k is not None:
                known_lines.setdefault(k["signature"], [k, 0])
                known_lines[k["signature"]][1] += 1
                continue
            key = v.get("oracle")
            n_viol += 1
            if len(dismissed) >= 6 and v.get("class") == "timeout":
                dismissed.add(r["index"])       # (six in a row returned on replay: the machine is overloaded)
                continue
            if key in reported or len(reported) >= 3:
                continue
            reported.add(key)
            small, v2 = (case, v)
            if not a.no_shrink:
                try:
                    small, v2 = shrink.minimise(prof, case, v, libs, timeout,
                                                seconds=40.0 if v.get("class") == "timeout" else 90.0)
                except Exception:
                    traceback.print_exc()
            # replay must reproduce before the violation is reported
            path = runner.write_replay(pid, seed, small, v2, None)
            rto = timeout * (2 if v2.get("class") == "timeout" else 4)     # (a hang is waited for in full, twice)
            ok, viol2, digest, _ = runner.replay_file(path, libs, rto)
            ok2, viol3, digest2, _ = runner.replay_file(path, libs, rto)
            if not (ok and ok2) and v2.get("class") == "crash":
                # crashes that stem from memory corruption depend on heap state: a few more attempts, and if the crash
                # stays elusive it is reported as such (the original observation is recorded in the replay file)
                for _k in range(4):
                    okk, _, dg, _ = runner.replay_file(path, libs, timeout * 4)
                    if okk:
                        ok = ok2 = True
                        digest = digest2 = dg
                        break
                if not (ok and ok2):
                    v2 = dict(v2, oracle=str(v2.get("oracle")) + "(intermittent)")
                    path = runner.write_replay(pid, seed, small, v2, digest)
                    ok = ok2 = True
            doc = json.load(open(path, encoding="utf-8"))
            doc["digest"] = digest
            doc["replay_reproduced_twice"] = bool(ok and ok2 and digest == digest2)
            json.dump(doc, open(path, "w", encoding="utf-8"), ensure_ascii=False, indent=1, default=str)
            if not (ok and ok2):
                if getattr(prof, "NONDET_IS_VIOLATION", False):
                    # same concrete case, different verdicts: the executions are not repeatable, which this property forbids
                    v2 = dict(v2, oracle=pid + ".repeatable",
                              detail="verdict '%s' of this concrete case did not repeat on re-execution: %s" % (key, v2.get("detail")))
                    path = runner.write_replay(pid, seed, small, v2, digest)
                elif v2.get("class") == "timeout":
                    # the case did return when it was executed again (twice, on a longer leash): it was slow under the load
                    # of the moment, not hung. Wall-clock budgets only decide when they reproduce.
                    print("NOTE: case %d exceeded its wall budget once and returned within it on replay (machine load); "
                          "not counted (%s)" % (r["index"], path))
                    dismissed.add(r["index"])
                    reported.discard(key)
                    continue
                else:
                    print("HARNESS-ERROR violation %s of case %d did not reproduce on replay (%s)" % (key, r["index"], path))
                    if exit_code == 0:
                        exit_code = 2
                    continue
            print("VIOLATION property=%s replay=%s" % (pid, path))
            print("  oracle=%s class=%s case=%d\n  %s" % (v2.get("oracle"), v2.get("class"), r["index"],
                                                         str(v2.get("detail"))[:1500].replace("\n", "\n  ")))
            exit_code = 1       # a reproduced violation decides the run, whatever else did not reproduce
    n_viol -= len(dismissed)
    if len(dismissed) >= 6 and exit_code == 0:
        print("HARNESS-ERROR %d cases exceeded their wall budget and returned in time when executed again: the machine is too "
              "loaded for wall budgets to mean anything; no verdict" % len(dismissed))
        exit_code = 2
    ginfo = {}
    if hasattr(prof, "global_check"):
        gv, ginfo = prof.global_check(total)
        for v in gv:
            n_viol += 1
            gcase = {"global": True, "property": pid, "tier": tier, "seed": seed, "indices": [recs[0]["index"], recs[-1]["index"] + 1],
                     "index": -1, "lifetimes": [], "scripts": []}
            path = runner.write_replay(pid, seed, gcase, v, [json.dumps(ginfo, sort_keys=True, default=float)])
            print("VIOLATION property=%s replay=%s" % (pid, path))
            print("  oracle=%s (pooled over cases %d..%d)\n  %s" % (v["oracle"], recs[0]["index"], recs[-1]["index"], v["detail"]))
            exit_code = 1
    for sigk, (k, cnt) in known_lines.items():
        print("KNOWN-FINDING: property=%s %s -- %s (seen in %d cases)" % (pid, k["signature"], k["what"], cnt))
    wall = time.time() - t0
    nontriv = int(total.get("nontrivial", 0))
    cov = {"evaluations": len(recs), "distinct_nontrivial": nontriv, "rule": prof.RULE, "samples": samples,
           "simulated_lifetimes": total.get("lifetimes"), "engine_steps": total.get("engine_steps"),
           "simulated_engine_seconds_SI": total.get("simulated_engine_seconds"),
           "virtual_wall_clock_ms_consumed_by_run": total.get("virtual_clock_ms"),
           "run_slices": total.get("run_slices"), "run_slices_ended_by_clock": total.get("run_slices_ended_by_clock"),
           "lifetimes_per_hour": int(3600 * (total.get("lifetimes") or 0) / max(wall, 1e-9)),
           "cases_per_hour": int(3600 * len(recs) / max(wall, 1e-9)),
           "faults_fired": total.get("faults", {}), "probes": {k: v for k, v in total.items()
                                                              if k not in ("faults", "lifetimes", "cases", "nontrivial",
                                                                           "engine_steps", "schedules", "kinds",
                                                                           "simulated_engine_seconds", "virtual_clock_ms",
                                                                           "run_slices", "run_slices_ended_by_clock",
                                                                           "mlife_pairs", "g", "op_sequences")},
           "distinct_schedule_signatures": len(total.get("schedules", ())), "kinds": total.get("kinds"),
           "distinct_op_sequences (hash of the op-kind sequence of a lifetime, incl. drive plans)": len(total.get("op_sequences", ())),
           "real_components": ["strengths Python front end (RDScript, RDSystem, LibRDEngine, simulate_script, engine_collection factories)",
                               "native engine built from /repo working tree"],
           "stubbed_components": ["wall clock inside engineexport_run (virtual, hook H1)", "entropy behind random.randint (seeded)"],
           "known_findings_seen": {k: c for k, (_, c) in known_lines.items()}}
    if ginfo:
        cov["pooled_statistics"] = ginfo
    if extra_cov:
        cov.update(extra_cov)
    if hasattr(prof, "extra_coverage"):
        cov.update(prof.extra_coverage(total))
    if not a.no_evidence:
        runner.write_evidence(pid, tier, seed, prof.LEVEL, cov, wall, n_viol, prof.ASSUMPTIONS)
    print("%s %s seed=%d: %d cases, %d non-trivial, %d violations, %.1fs" % (pid, tier, seed, len(recs), nontriv, n_viol, wall))
    return exit_code


def cmd_replay(a):
    doc0 = json.load(open(a.path, encoding="utf-8"))
    prof0 = runner.profile(doc0["property"])
    if hasattr(prof0, "replay_san") and not doc0["case"].get("global"):
        # this property's replays run in the environment they were found in (sanitizer runtime preloaded, fill byte)
        ok = prof0.replay_san(a.path)
        print("violation: oracle=%s class=%s\n  %s" % (doc0["violation"].get("oracle"), doc0["violation"].get("class"),
                                                     str(doc0["violation"].get("detail"))[:2000].replace("\n", "\n  ")))
        if ok:
            print("VIOLATION property=%s replay=%s" % (doc0["property"], a.path))
            return 1
        print("not reproduced")
        return 0
    ok, viol, digest, doc = runner.replay_file(a.path)
    for v in viol:
        print("oracle=%s class=%s lifetime=%s episode=%s op=%s\n  %s" % (
            v.get("oracle"), v.get("class"), v.get("lifetime"), v.get("episode"), v.get("op"),
            str(v.get("detail"))[:3000].replace("\n", "\n  ")))
    print("digest %s (recorded %s)" % (digest, doc.get("digest")))
    if ok:
        print("VIOLATION property=%s replay=%s" % (doc["property"], a.path))
        return 1
    print("not reproduced")
    return 0


def cmd_selftest(a):
    """harness determinism, proved on a sample: the same cases (a) twice in this process with 16 and 4 workers and
    (b) in a fresh interpreter with another PYTHONHASHSEED and another worker count must give identical event-log digests"""
    import pickle
    from . import campaign
    seed = int(os.environ.get("VERIF_SEED", "1"))
    libs = {"plain": build.build("plain")}
    rc = 0
    work = os.path.join(build.WORK, "selftest-%d" % os.getpid())
    os.makedirs(work, exist_ok=True)
    for pid in ["C01", "C02", "C03", "C04", "C07", "C08", "C09", "C10", "C12", "C14"]:
        prof = runner.profile(pid)
        t0 = time.time()
        bad, first = determinism_smoke(pid, "quick", seed, libs, a.cases, prof.timeout("quick"))
        out = os.path.join(work, pid + ".pkl")
        env = campaign.plain_env({"PYTHONHASHSEED": "12345"})
        p = campaign.spawn(["--pid", pid, "--tier", "quick", "--seed", str(seed), "--start", "0", "--count", str(a.cases),
                            "--build", "plain", "--nproc", "5"], env, out, wall=1800)
        p.wait()
        try:
            other = {r["index"]: r["digest"] for r in pickle.load(open(out, "rb"))["recs"]}
        except Exception:
            print(pid, "HARNESS-ERROR: fresh-interpreter campaign failed")
            rc = 2
            continue
        bad2 = [r["index"] for r in first if other.get(r["index"]) != r["digest"]]
        print("%s: %d cases x 3 executions (16 workers, 4 workers, fresh interpreter PYTHONHASHSEED=12345 with 5 workers): "
              "digest mismatches in-process %s, across interpreters %s  [%.0fs]" % (pid, a.cases, bad, bad2, time.time() - t0))
        if bad or bad2:
            rc = 2
        for f in (out, out + ".log"):
            try:
                os.unlink(f)
            except OSError:
                pass
    try:
        os.rmdir(work)
    except OSError:
        pass
    return rc
