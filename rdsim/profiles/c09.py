"""C09 -- sampling contract: which states are recorded, when, and in what shape.

Observed episodes (iterate + observe after every call, explicit sample() interleaved); the reference sampler,
fed with the observed step history, must predict exactly the recorded samples."""
from ..models import Model
from ..prng import Stream
from .. import traj
from . import common as C

ID = "C09"
LEVEL = "exploration"

SPEC_P = dict(n_species=(1, 3), n_reactions=(0, 3), max_cells=8, n_mol=(1.0, 100.0), graph_nodes=(1, 5),
              graph_edges=(0, 6))


def n_cases(tier):
    return 2600 if tier == "quick" else 80000


def timeout(tier):
    return 20.0 if tier == "quick" else 120.0


def generate(seed, tier, index):
    base = Stream(ID, seed, tier, index)
    rs, ru, rk, rf = base.sub("spec"), base.sub("units"), base.sub("script"), base.sub("sched")
    kind = rs.wchoice([("euler", 3), ("tauleap", 3), ("gillespie", 3)])
    rich = rs.chance(0.5)
    nscripts = rf.wchoice([(1, 3), (2, 1)])
    scripts = []
    eps = []
    if index % 40 == 11:
        # a long fixed-step run (hundreds of thousands of steps, driven in big batches) whose requested times sit close
        # together at its far end: each of them still gets the record of the first step at or after it
        import math
        kind = rs.choice(["euler", "tauleap"])
        vol = (rs.loguniform(0.5, 2.0) * 1e-6) ** 3
        dtl = rs.loguniform(1e-4, 1e-2)
        n0 = rs.randint(120000, 300000)
        offs = [0.5, 0.5 + rs.randint(1, 3), 4.5 + rs.randint(0, 3)]
        tsl = [(n0 + o) * dtl for o in offs]
        if rs.chance(0.5):
            tsl = [0.0] + tsl
        spec_l = {"envs": ["cyt"], "species": [{"label": "A", "D": [0.0], "dens": [0.0], "chst": [0]}],
                  "reactions": [{"label": None, "sub": {"A": 1}, "prod": {}, "kf": [1.0 / (n0 * dtl)], "kr": [0.0]}],
                  "space": {"type": "grid", "w": 1, "h": 1, "d": 1, "bc": ["reflecting"] * 3, "cell_env": [0], "vol": vol},
                  "state": [float(rs.randint(50, 500))], "chem": None}
        sp_l = {"kind": kind, "dt": dtl, "t_sample": tsl, "t_max": None, "policy": "on_t_sample", "interval": dtl,
                "seed": rk.bits(31), "isp": "none", "ongrid": False, "steps": n0 + 12}
        e = C.rerender_plain({"phys": {"spec": spec_l, "sp": sp_l, "kind": kind}})
        want = []
        for t_ in tsl:
            k_ = int(math.ceil(t_ / dtl - 1e-9))
            if not want or want[-1] != k_:
                want.append(k_)
        ops = [["poison", 0], ["setup"], ["drive", [["iterate_n", 50000]], 10], ["output"], ["finalize"]]
        return {"format": 1, "property": ID, "seed": seed, "tier": tier, "index": index, "build": "plain",
                "scripts": [e], "lifetimes": [{"pyseed": rf.bits(30), "episodes": [
                    {"obj": 0, "kind": kind, "via": "LibRDEngine", "script": 0, "ops": ops}]}],
                "meta": {"kind": kind, "longrun": {"steps": want, "dt": dtl}}}
    for j in range(nscripts):
        if j == 0:
            e = C.make_script_entry(rs, ru, rk, kind, SPEC_P,
                                    {"steps": (2, 30), "allow_empty_ts": True, "p_ongrid": 0.2, "nreq": (1, 10), "p_tiny_interval": 0.03, "tauleap_fractional_none": 0.7}, rich=rich)
        else:
            # a second set-up on the same engine object: the sampler must start afresh
            e = C.make_script_entry(rs.sub(j), ru.sub(j), rk.sub(j), kind, SPEC_P,
                                    {"steps": (2, 20), "allow_empty_ts": True, "p_ongrid": 0.2}, rich=rich)
        ts_ = e["script"].get("t_sample")
        if isinstance(ts_, list) and len(ts_) >= 1 and rf.chance(0.12):
            # the script object is constructed with other requested times (fewer, or more and later ones) and gets the
            # real list assigned afterwards: everything derived from the list (the default t_max) follows the assignment
            if len(ts_) >= 2 and rf.chance(0.5):
                e["pre_t_sample"] = ts_[:len(ts_) - rf.randint(1, len(ts_) - 1)]
            else:
                e["pre_t_sample"] = list(ts_) + [C._scaled(ts_[-1], k_) for k_ in (2.0, 3.5)]
        if rf.chance(0.1) and e["script"].get("rng_seed") is not None:
            e["via_dict"] = rf.choice(["dict", "json"])     # the script that runs was read back from its dictionary form
        scripts.append(e)
        ops = C.observed_ops(rf, e["phys"]["sp"], kind, poison=rf.choice([0, 0x7f, 0xff]),
                             outputs=rf.wchoice([(1, 4), (2, 1)]))
        if rf.chance(0.7) or j == nscripts - 1:
            ops.append(["finalize"])
            spg = e["phys"]["spec"]["space"]
            if j == nscripts - 1 and kind != "gillespie" and spg["type"] == "grid" and all(b == "reflecting" for b in spg["bc"]) \
                    and rf.chance(0.5):
                # the same script on a coarse-grained copy of the system: a fixed-step run records at the same times
                ops.append(["simulate_cg", {"slices": [4, 3], "ms": 1000}, list(range(spg["w"] * spg["h"] * spg["d"]))])
        eps.append({"obj": 0, "kind": kind, "via": rf.choice(["LibRDEngine", "factory"]), "script": j, "ops": ops})
    return {"format": 1, "property": ID, "seed": seed, "tier": tier, "index": index, "build": "plain",
            "scripts": scripts, "lifetimes": [{"pyseed": rf.bits(30), "episodes": eps}],
            "meta": {"kind": kind}}


def check(case, results):
    viol = []
    stats = {"cases": 1, "lifetimes": 1, "policies": {}, "kinds": {case["meta"]["kind"]: 1}}
    res = results[0]
    kind = case["meta"]["kind"]
    nontrivial = 0
    if case["meta"].get("longrun"):
        import numpy as np
        from .. import si
        lr = case["meta"]["longrun"]
        phys = case["scripts"][0]["phys"]
        ctx = {"class": "violation", "lifetime": 0, "episode": 0}
        for ev in res.events:
            if "exc" in ev:
                viol.append(dict(ctx, oracle="C09.no-exception", op=ev["i"], detail=ev["exc"] + "\n" + ev.get("tb", "")))
        out = [ev for ev in res.events if ev["op"] == "output" and "exc" not in ev and not ev.get("skipped")]
        drv = [ev for ev in res.events if ev["op"] == "drive" and "exc" not in ev]
        if out and drv and drv[0].get("done"):
            rt = np.frombuffer(out[0]["raw_t"], dtype=np.float64) * si.factor(phys["eu"], si.DIM_TIME)
            want = np.array(lr["steps"], dtype=float) * lr["dt"]
            stats["long_runs"] = 1
            stats["engine_steps"] = int(lr["steps"][-1])
            nontrivial = 1
            if len(rt) != len(want) or np.any(np.abs(rt - want) > 1e-7 * np.abs(want) + 1e-300):
                viol.append(dict(ctx, oracle="C09.sampler", op=out[0]["i"],
                                 detail="long run (%d steps of %r s): records at %s s, the requested times %s s are covered by the "
                                        "steps at %s s" % (lr["steps"][-1], lr["dt"], rt.tolist(), phys["sp"]["t_sample"], want.tolist())))
        stats["nontrivial"] = nontrivial
        return viol, stats
    for ei, ep in enumerate(case["lifetimes"][0]["episodes"]):
        entry = case["scripts"][ep["script"]]
        phys = entry["phys"]
        m = Model(phys["spec"])
        h = traj.extract(case, 0, ei, res, m.ns, m.nc)
        if h.problems:
            viol.append({"class": "harness", "oracle": "harness", "detail": "; ".join(h.problems)})
            continue
        v = []
        for ev in h.exc:
            v.append({"oracle": "C09.no-exception", "detail": ev["exc"] + "\n" + ev.get("tb", ""), "op": ev["i"]})
        if h.setup is None:
            for x in v:
                x.update({"class": "violation", "lifetime": 0, "episode": ei})
            viol.extend(v)
            continue
        if h.obs0 is not None:
            # the state right after set-up is the processed initial state: untouched for 'none' (and for Euler's 'auto'),
            # and whatever the mode an entry whose amount is zero stays zero
            import numpy as np
            from .. import si
            isp_ = phys["sp"]["isp"]
            fq_ = si.factor(phys["eu"], si.DIM_QUANTITY)
            X0_ = h.obs0.x * fq_
            if isp_ == "none" or (isp_ == "auto" and kind == "euler"):
                if np.any(np.abs(X0_ - m.x0) > 1e-11 * np.abs(m.x0) + 1e-300):
                    d_ = np.argwhere(np.abs(X0_ - m.x0) > 1e-11 * np.abs(m.x0) + 1e-300)[0]
                    v.append({"oracle": "C09.initial-record", "detail": "entry (species %d, cell %d) is %r molecules right after "
                              "set-up, the state says %r" % (d_[0], d_[1], X0_[d_[0], d_[1]], m.x0[d_[0], d_[1]])})
            elif np.any(X0_[m.x0 == 0] != 0):
                d_ = np.argwhere((m.x0 == 0) & (X0_ != 0))[0]
                v.append({"oracle": "C09.initial-record", "detail": "mode %s: entry (species %d, cell %d), whose amount is 0, "
                          "holds %r molecules right after set-up" % (isp_, d_[0], d_[1], X0_[d_[0], d_[1]])})
            stats["initial_records_checked"] = stats.get("initial_records_checked", 0) + 1
        traj.check_script_numbers(h.setup, phys, v, "C09")
        traj.sampler_oracle(h, phys, v, stats, "C09", fixed_step=(kind != "gillespie"))
        traj.output_oracle(h, traj.recs_at_factory(h), phys, m.ns, m.nc, v, stats, "C09")
        for ev in res.events:
            if ev["e"] == ei and ev["op"] == "simulate_cg" and not ev.get("skipped"):
                if "exc" in ev:
                    continue        # (reported with the other exceptions)
                stats["coarse_grained_runs"] = stats.get("coarse_grained_runs", 0) + 1
                has_sample = any(o_[0] == "sample" or (o_[0] == "drive" and any(q_[0] == "sample" for q_ in o_[1]))
                                 for o_ in ep["ops"])
                full = [o_ for (ap_, o_) in h.outputs if getattr(h, "complete_pred", False) and not has_sample]
                if full and full[-1]["t"] != ev["t"] and not v:
                    import numpy as np
                    v.append({"oracle": "C09.sampler", "detail": "the coarse-grained run of the same fixed-step script records at "
                              "%s, the plain run at %s (script time units)" % (
                                  np.frombuffer(ev["t"], dtype=np.float64).tolist()[:8],
                                  np.frombuffer(full[-1]["t"], dtype=np.float64).tolist()[:8])})
        stats["policies"][phys["sp"]["policy"]] = stats["policies"].get(phys["sp"]["policy"], 0) + 1
        stats["engine_steps"] = stats.get("engine_steps", 0) + getattr(h, "nsteps", 0)
        if getattr(h, "hit_cap", False):
            stats["hit_cap"] = stats.get("hit_cap", 0) + 1
        if getattr(h, "nsteps", 0) >= 2 and h.outputs:
            nontrivial = 1
        for x in v:
            x.update({"class": "violation", "lifetime": 0, "episode": ei})
        viol.extend(v)
    stats["nontrivial"] = nontrivial
    return viol, stats


def describe(case):
    return {"kind": case["meta"]["kind"], "script": case["scripts"][0]["script"],
            "ops": [o if len(str(o)) < 300 else [o[0], str(o[1])[:300] + "..."] for o in case["lifetimes"][0]["episodes"][0]["ops"]]}


RULE = ("case = 1-2 scripts (random network/space/units, all four policies, request lists with duplicates / clusters / "
        "empty / on-grid ties, explicit or default t_max) run as observed episodes on one engine object: iterate()+observe "
        "after every call, explicit sample() interleaved, calls after completion; non-trivial = at least 2 engine steps and "
        "one fetched output; distinct = distinct case index")
ASSUMPTIONS = ["observe() reads time/state/record count through the three exported getters LibRDEngine declares",
               "ties are resolved with the time quantities exactly as the front end hands them to the engine; those are "
               "themselves checked against the SI spec to 1e-12"]
