"""C12 -- dictionary, JSON and file round-trips preserve the model.

A sandbox directory tree per lifetime and a model M-fs (path -> object it must hold). Objects (network, space, system,
script, trajectory from a short real simulation) are built from rendered dictionaries, saved under relative or
absolute paths into several directories, split into multi-file layouts with relative references and external array
files, the cwd changes, whole trees are moved or copied, files are loaded back by relative or absolute path; every
loaded object must have the physical content (in SI) of the object that was saved there."""
from .. import gen, si
from .. import phys as P
from ..models import Model
from ..prng import Stream
from . import common as C

ID = "C12"
LEVEL = "exploration"

SPEC_P = dict(n_species=(1, 4), n_reactions=(0, 3), max_order=3, max_cells=8, graph_nodes=(1, 5), graph_edges=(0, 6),
              n_mol=(1.0, 500.0), chem="mixed", state="mixed")
DIRS = ["", "a", "a/b", "c"]


def n_cases(tier):
    return 1300 if tier == "quick" else 40000


def timeout(tier):
    return 20.0 if tier == "quick" else 120.0


def _get(d, names):
    for n in names:
        if n in d:
            return d[n]
    return None


def generate(seed, tier, index):
    base = Stream(ID, seed, tier, index)
    rs, ru, rk, rf = base.sub("spec"), base.sub("units"), base.sub("script"), base.sub("sched")
    kind = rs.choice(["euler", "tauleap"])     # the trajectory is built with the library's own (uncapped) driver loop
    spec = None
    entry = C.make_script_entry(rs, ru, rk, kind, SPEC_P, {"steps": (2, 10), "p_seed": 0.8}, rich=rs.chance(0.85))
    # the renderer's effective system units are needed to build network/space on their own: re-derive by construction
    sysd = entry["system"]
    pus = entry["parent_us"]
    uk = _get(sysd, ["units", "units_system", "units system", "u"])
    if isinstance(uk, dict):
        sys_eff = uk
    elif uk == "default":
        sys_eff = dict(si.DEFAULT_US)
    else:
        sys_eff = pus
    spc_ = entry["phys"]["spec"]["space"]
    skey_ = "space" if "space" in sysd else "rdspace"
    if spc_["type"] == "grid" and rs.sub("unitvol").chance(0.15):
        # the cell volume is one cubic unit of the space's own length unit, and the key is omitted (documented default)
        suk = _get(sysd[skey_], ["units", "units_system", "units system", "u"])
        sp_eff = suk if isinstance(suk, dict) else (dict(si.DEFAULT_US) if suk == "default" else sys_eff)
        spc_["vol"] = si.factor(sp_eff, si.DIM_VOLUME)
        for k_ in ("cell_volume", "cell_vol"):
            sysd[skey_].pop(k_, None)
    ops = [["fs_mkdir", "a/b"], ["fs_mkdir", "c"]]
    objects = {}
    ops.append(["fs_build", "net", "network", {"d": _get(sysd, ["network", "rdnetwork"]), "pus": sys_eff}])
    objects["net"] = "network"
    ops.append(["fs_build", "spc", "space", {"d": _get(sysd, ["space", "rdspace"]), "pus": sys_eff}])
    objects["spc"] = "space"
    ops.append(["fs_build", "sys", "system", {"sidx": 0}])
    objects["sys"] = "system"
    ops.append(["fs_build", "scr", "script", {"sidx": 0}])
    objects["scr"] = "script"
    if rf.chance(0.35):
        pl = {"sidx": 0}
        spc = entry["phys"]["spec"]["space"]
        if spc["type"] == "grid" and all(b == "reflecting" for b in spc["bc"]) and rf.chance(0.6):
            # a coarse-grained run: the trajectory's system (fine grid) differs from its script's system (graph)
            ncell = spc["w"] * spc["h"] * spc["d"]
            pl["cgmap"] = list(range(ncell))
        ops.append(["fs_build", "trj", "trajectory", pl])
        objects["trj"] = "trajectory"
        if rf.chance(0.5):
            # a second, different trajectory (other requested times): saved next to the first one under a similar name
            ops.append(["fs_build", "trj2", "trajectory", {"sidx": 1}])
            objects["trj2"] = "trajectory"
    giant = index % 25 == 3
    if giant:
        # a trajectory of a molecule-counting engine whose counts exceed the 32-bit range, stored both ways
        ops.append(["fs_build", "trjG", "trajectory", {"sidx": 2}])
        objects["trjG"] = "trajectory"
    if rf.chance(0.2):
        # the caller changes the state of its system object in place (no setter involved): what is saved afterwards is
        # the object as it is now
        ops.append(["fs_poke_state", "sys", rf.randint(0, 50), float(rf.randint(1, 9))])
        faults.add("state_changed_in_place_before_saving") if False else None
    files = {}     # path -> object name (generator-side copy of M-fs, to draw loads)
    nfile = 0
    faults = set()
    for _ in range(rf.randint(4, 14)):
        c = rf.wchoice([("save", 5), ("load", 5), ("fixpoint", 2), ("split", 2), ("chdir", 2), ("move", 1), ("copy", 1),
                        ("phys", 1)])
        if c == "save":
            nm = rf.choice(sorted(objects))
            d = rf.choice(DIRS)
            nfile += 1
            fn = rf.choice(["%s%d.json", "%s.v%d.json", "%s.%d"]) % (nm.rstrip("2"), nfile)   # names with extra dots too
            path = (d + "/" + fn) if d else fn
            opts = {"abs": rf.chance(0.3)}
            if objects[nm] == "trajectory":
                opts["separate"] = rf.chance(0.6)
                faults.add("trajectory_separate_data" if opts["separate"] else "trajectory_inline_data")
            ops.append(["fs_save", nm, path, opts])
            # (save_rdtrajectory appends the documented ".json" suffix when it is absent)
            files[path if (objects[nm] != "trajectory" or path.endswith(".json")) else path + ".json"] = nm
            faults.add("save_abs" if opts["abs"] else "save_rel")
        elif c == "load" and files:
            path = rf.choice(sorted(files))
            opts = {"abs": rf.chance(0.3)}
            ops.append(["fs_load", "ld%d" % len(ops), objects[files[path]], path, opts])
            faults.add("load_abs" if opts["abs"] else "load_rel")
        elif c == "fixpoint":
            nm = rf.choice([n for n in sorted(objects) if objects[n] != "trajectory"])
            ops.append(["fs_fixpoint", nm, rf.chance(0.5)])
            faults.add("fixpoint")
        elif c == "split":
            nfile += 1
            d = rf.choice(DIRS)
            top = ((d + "/") if d else "") + "top%d.json" % nfile
            lay = {}
            if rf.chance(0.7):
                lay["network"] = rf.choice(["net%d.json" % nfile, "parts/net%d.json" % nfile])
            if rf.chance(0.7):
                lay["space"] = rf.choice(["space%d.json" % nfile, "parts/space%d.json" % nfile])
                if rf.chance(0.6):
                    lay["cell_env"] = rf.choice(["env%d.txt" % nfile, "env%d.npy" % nfile])
                    lay["commas"] = rf.chance(0.5)
            if rf.chance(0.6):
                lay["state"] = rf.choice(["x%d.npy" % nfile, "parts/x%d.npy" % nfile])
            if rf.chance(0.6):
                lay["chemostats"] = rf.choice(["chem%d.txt" % nfile, "chem%d.npy" % nfile])
            ops.append(["fs_split", "sys", top, lay])
            files[top] = "sys"
            faults.add("multi_file_layout")
        elif c == "chdir":
            ops.append(["fs_chdir", rf.choice(DIRS)])
            faults.add("chdir")
        elif c in ("move", "copy"):
            src = rf.choice(["a", "c"])
            nfile += 1
            dst = "%s%d" % ("mv" if c == "move" else "cp", nfile)
            ops.append(["fs_chdir", ""])
            ops.append(["fs_" + c, src, dst])
            newfiles = {}
            for p, nm in files.items():
                if p.startswith(src + "/"):
                    newfiles[dst + p[len(src):]] = nm
                    if c == "copy":
                        newfiles[p] = nm
                else:
                    newfiles[p] = nm
            files = newfiles
            if c == "move":
                ops.append(["fs_mkdir", "a/b" if src == "a" else "c"])
            faults.add("tree_" + c)
        elif c == "phys":
            ops.append(["fs_phys", rf.choice(sorted(objects))])
    if "trj2" in objects and rf.chance(0.7):
        # two different trajectories saved side by side under names that differ only after a dot, data in external files
        d = rf.choice(DIRS)
        pa = ((d + "/") if d else "") + "run.k0.25"
        pb = ((d + "/") if d else "") + "run.k0.5"
        ops.append(["fs_save", "trj", pa, {"abs": rf.chance(0.3), "separate": True}])
        ops.append(["fs_save", "trj2", pb, {"abs": rf.chance(0.3), "separate": True}])
        files[pa + ".json"] = "trj"
        files[pb + ".json"] = "trj2"
        ops.append(["fs_load", "ld%d" % len(ops), "trajectory", pa + ".json", {"abs": rf.chance(0.3)}])
        faults.add("sibling_trajectory_files")
    if index % 6 == 2:
        # a hand-written network file without any 'units' key, read through the plain entry point; the caller then edits the
        # units system of the object it got, in place; reading the file again gives what the file says
        plain = C.rerender_plain(entry)
        netd = _get(plain["system"], ["network", "rdnetwork"])
        ops += [["fs_build", "netP", "network", {"d": netd, "pus": dict(si.DEFAULT_US)}],
                ["fs_raw", "netP", "a/rawnet.json", netd],
                ["fs_chdir", rf.choice(DIRS)],
                ["fs_load", "ldraw1", "network", "a/rawnet.json", {"abs": rf.chance(0.5)}],
                ["fs_touch_units", "ldraw1"],
                ["fs_load", "ldraw2", "network", "a/rawnet.json", {"abs": rf.chance(0.5)}]]
        objects["netP"] = "network"
        files["a/rawnet.json"] = "netP"
        faults.add("reader_result_edited_in_place_then_read_again")
    if giant:
        for sep in (True, False):
            pg = "a/giant_%s" % ("npy" if sep else "inline")
            ops.append(["fs_save", "trjG", pg, {"abs": rf.chance(0.3), "separate": sep}])
            files[pg + ".json"] = "trjG"
            ops.append(["fs_load", "ld%d" % len(ops), "trajectory", pg + ".json", {"abs": rf.chance(0.3)}])
        faults.add("counts_beyond_32_bits_in_a_saved_trajectory")
    # make sure something is loaded back
    for path in rf.sample(sorted(files), min(2, len(files))):
        ops.append(["fs_chdir", rf.choice(["", "c"])])
        ops.append(["fs_load", "ld%d" % len(ops), objects[files[path]], path, {"abs": rf.chance(0.3)}])
    if rf.chance(0.3):
        # a file written again under the same name holds the new object, however the path is spelled and wherever the
        # process stands; also when the file is one part of a multi-file system
        ret = C.retuned_entry(entry, rf.sub("ret"))
        ops.append(["fs_build", "net2", "network", {"d": _get(ret["system"], ["network", "rdnetwork"]), "pus": sys_eff}])
        objects["net2"] = "network"
        d = rf.choice(DIRS)
        pre = (d + "/") if d else ""
        a1 = rf.chance(0.5)
        ops += [["fs_chdir", rf.choice(DIRS)], ["fs_save", "net", pre + "over.json", {"abs": a1}],
                ["fs_load", "ld%d" % len(ops), "network", pre + "over.json", {"abs": rf.chance(0.5)}],
                ["fs_chdir", rf.choice(DIRS)], ["fs_save", "net2", pre + "over.json", {"abs": not a1}],
                ["fs_load", "ld%d" % (len(ops) + 4), "network", pre + "over.json", {"abs": rf.chance(0.5)}]]
        ops += [["fs_split", "sys", pre + "otop.json", {"network": "onet.json"}],
                ["fs_load", "ld%d" % (len(ops) + 1), "system", pre + "otop.json", {"abs": rf.chance(0.5)}],
                ["fs_chdir", rf.choice(DIRS)], ["fs_save", "net2", pre + "onet.json", {"abs": rf.chance(0.5)}],
                ["fs_load", "ld%d" % (len(ops) + 4), "system", pre + "otop.json", {"abs": rf.chance(0.5)}]]
        faults.add("file_rewritten_under_the_same_name")
    eps = [{"obj": 0, "kind": kind, "via": "LibRDEngine", "script": 0, "ops": ops}]
    import copy
    entry2 = copy.deepcopy(entry)
    sp2 = entry2["phys"]["sp"]
    sp2["t_sample"] = sorted(set([0.0] + [t * 0.5 for t in sp2["t_sample"]] + [sp2["dt"] * 1.5]))
    sp2["seed"] = rf.bits(31)
    entry2["script"] = gen.render_script(Stream(ID, seed, tier, index, "s2"), sp2, entry2["phys"]["us"], rich=False)
    return {"format": 1, "property": ID, "seed": seed, "tier": tier, "index": index, "build": "plain", "sandbox": True,
            "scripts": [entry, entry2] + ([C.giant_entry(rs.sub("giant"), rk.sub("giant"))] if giant else []),
            "lifetimes": [{"pyseed": rf.bits(30), "episodes": eps}],
            "meta": {"kind": kind, "faults": sorted(faults), "objects": objects}}


def check(case, results):
    viol = []
    stats = {"cases": 1, "lifetimes": 1, "faults": {f: 1 for f in case["meta"]["faults"]}, "kinds_loaded": {}}
    res = results[0]
    ops = case["lifetimes"][0]["episodes"][0]["ops"]
    evs = {ev["i"]: ev for ev in res.events}
    built = {}      # object name -> phys
    files = {}      # M-fs: path -> object name
    parts = {}      # top file of a multi-file system -> path of its network part
    loads = 0
    ctx = {"class": "violation", "lifetime": 0, "episode": 0}
    for oi, op in enumerate(ops):
        ev = evs.get(oi)
        if ev is None:
            break
        if ev.get("skipped"):
            continue
        name = op[0]
        if "exc" in ev and name == "fs_load" and op[3] not in files:
            continue      # the file was never written (its save already failed and was reported)
        if "exc" in ev and name == "fs_build" and isinstance(op[3], dict) and op[3].get("cgmap") is not None:
            stats["cg_build_failed"] = stats.get("cg_build_failed", 0) + 1
            continue      # coarse-graining itself is not this property's business
        if name in ("fs_save", "fs_phys") and op[1] not in built:
            continue
        if "exc" in ev:
            viol.append(dict(ctx, oracle="C12.no-exception", op=oi,
                             detail="%s %s: %s\n%s" % (name, op[1:3], ev["exc"], ev.get("tb", ""))))
            continue
        if name == "fs_build":
            built[op[1]] = ev["phys"]
            if op[2] in ("system", "script"):
                mm = Model(case["scripts"][0]["phys"]["spec"])
                psys = ev["phys"] if op[2] == "system" else ev["phys"]["system"]
                want = [float(x) for x in mm.x0.ravel()]
                got = psys["state"][0]
                if len(got) != len(want) or any(abs(a - b) > 1e-12 * max(abs(a), abs(b)) for a, b in zip(got, want)):
                    viol.append(dict(ctx, oracle="C12.object-matches-description", op=oi,
                                     detail="the state of the %s built from the description is %s molecules, the description says %s"
                                            % (op[2], got[:6], want[:6])))
                elif [int(bool(c)) for c in psys["chemostats"]] != [int(c) for c in mm.chem.ravel()]:
                    viol.append(dict(ctx, oracle="C12.object-matches-description", op=oi,
                                     detail="the chemostat map of the %s built from the description differs from it" % op[2]))
            if op[2] == "script":
                # the object the round trips start from must itself say what the description says (sample times in SI etc.)
                sp = case["scripts"][0]["phys"]["sp"]
                ph = ev["phys"]
                got_ts = ph["t_sample"][0]
                bad = None
                if len(got_ts) != len(sp["t_sample"]) or any(abs(a - b) > 1e-12 * max(abs(a), abs(b)) for a, b in zip(got_ts, sp["t_sample"])):
                    bad = "t_sample %s s, the description says %s s" % (got_ts[:5], sp["t_sample"][:5])
                elif abs(ph["time_step"][0] - sp["dt"]) > 1e-12 * sp["dt"]:
                    bad = "time_step %r s vs %r s" % (ph["time_step"][0], sp["dt"])
                elif sp["seed"] is not None and ph["rng_seed"] != sp["seed"]:
                    bad = "rng_seed %r vs %r" % (ph["rng_seed"], sp["seed"])
                elif ph["init_state_processing"] != sp["isp"] or ph["sampling_policy"] != sp["policy"]:
                    bad = "processing mode / policy %r %r vs %r %r" % (ph["init_state_processing"], ph["sampling_policy"], sp["isp"], sp["policy"])
                if bad:
                    viol.append(dict(ctx, oracle="C12.object-matches-description", op=oi,
                                     detail="the script object built from the description differs from it: " + bad))
        elif name == "fs_phys":
            d = P.diff(built[op[1]], ev["phys"])
            if d:
                viol.append(dict(ctx, oracle="C12.save-does-not-modify", op=oi,
                                 detail="object '%s' changed after being saved/serialised: %s" % (op[1], "; ".join(d))))
        elif name == "fs_raw":
            files[op[2]] = op[1]
        elif name == "fs_poke_state":
            built[op[1]] = ev["phys"]
            stats["state_changed_in_place_before_saving"] = 1
        elif name in ("fs_save", "fs_split"):
            pth = op[2]
            if name == "fs_save" and case["meta"]["objects"].get(op[1]) == "trajectory" and not pth.endswith(".json"):
                pth += ".json"
            files[pth] = op[1]
            if name == "fs_split" and op[3].get("network"):
                import posixpath
                pp = posixpath.normpath(posixpath.join(posixpath.dirname(pth), op[3]["network"]))
                files.pop(pp, None)
                parts[pth] = pp
        elif name in ("fs_move", "fs_copy"):
            parts = {}
            src, dst = op[1], op[2]
            nf = {}
            for p, nm in files.items():
                if p.startswith(src + "/"):
                    nf[dst + p[len(src):]] = nm
                    if name == "fs_copy":
                        nf[p] = nm
                else:
                    nf[p] = nm
            files = nf
        elif name == "fs_load":
            want = built.get(files.get(op[3]))
            if want is None:
                continue
            if op[3] in parts and built.get(files.get(parts[op[3]])) is not None:
                # the network part of this multi-file system was written again since: the system now has that network
                want = dict(want, network=built[files[parts[op[3]]]])
                stats["part_file_rewritten"] = stats.get("part_file_rewritten", 0) + 1
            loads += 1
            stats["kinds_loaded"][op[2]] = stats["kinds_loaded"].get(op[2], 0) + 1
            d = P.diff(want, ev["phys"])
            if d:
                viol.append(dict(ctx, oracle="C12.load-equals-saved", op=oi,
                                 detail="%s loaded from '%s' (cwd '%s') differs from the object saved there: %s" % (
                                     op[2], op[3], ev.get("cwd"), "; ".join(d))))
        elif name == "fs_fixpoint":
            loads += 1
            if not ev["equal"]:
                viol.append(dict(ctx, oracle="C12.dict-fixpoint", op=oi,
                                 detail="to_dict(from_dict(to_dict(x))) != to_dict(x) for '%s'%s:\n%s\n%s" % (
                                     op[1], " through JSON text" if op[2] else "", ev.get("d1", "")[:600], ev.get("d2", "")[:600])))
            d = P.diff(built[op[1]], ev["phys"])
            if d:
                viol.append(dict(ctx, oracle="C12.dict-roundtrip", op=oi,
                                 detail="object '%s' rebuilt from its dictionary%s differs: %s" % (
                                     op[1], " (through JSON text)" if op[2] else "", "; ".join(d))))
    stats["roundtrips_checked"] = loads
    stats["nontrivial"] = 1 if loads >= 1 else 0
    return viol, stats


def describe(case):
    return {"faults": case["meta"]["faults"],
            "ops": [o if o[0] != "fs_build" else [o[0], o[1], o[2]] for o in case["lifetimes"][0]["episodes"][0]["ops"]]}


RULE = ("case = one random system + script (units systems at every nesting level incl. graph nodes and edges, per-environment "
        "dictionaries, unlabeled reactions, empty sides, all boundary conditions) from which a network, a space, a system, a "
        "script and (35%) a trajectory of a real short simulation are built; 4-14 file-system ops (save relative/absolute into "
        "several directories, multi-file layouts with relative references and .txt/.npy array files, chdir, move/copy of whole "
        "trees, dictionary fix-points directly and through JSON text, loads by relative or absolute path); non-trivial = at "
        "least one round trip compared; distinct = distinct case index")
ASSUMPTIONS = ["physical content is read from object attributes and converted to SI with /verif/rdsim/si.py; floats compare at "
               "1e-12 relative, everything else exactly",
               "not decided here: interchangeability of key aliases and documented defaults of omitted keys (static clauses, "
               "no I/O or history in them)",
               "damaged or truncated files are not injected: the statement promises nothing about them"]
