"""C14 -- initial-state processing yields a valid molecular state with the right totals.

Set-ups only: one script is set up once per seed for a batch of seeds inside one lifetime and the state right after
each set-up is read. Oracles on that state: integrality / non-negativity, per-species totals = floor of the real total,
zero-preservation, Poisson moments per entry over the batch, pass-through for 'none', termination within the loop
budget, reproducibility per seed."""
import math

import numpy as np

from .. import gen, si
from ..models import Model
from ..prng import Stream
from . import common as C

ID = "C14"
LEVEL = "exploration"
ZMAX = 6.5
PMIN = 1e-10   # per-test false-alarm bound of the exact Poisson test


def n_cases(tier):
    return 1000 if tier == "quick" else 30000


def timeout(tier):
    return 30.0 if tier == "quick" else 120.0


def gen_state(rs, ns, nc, klass):
    st = []
    for s in range(ns):
        for i in range(nc):
            k = klass if klass != "mixed" else rs.wchoice([("zero", 2), ("tiny", 2), ("frac", 3), ("int", 2), ("large", 1)])
            if k == "zero":
                v = 0.0
            elif k == "tiny":
                v = rs.loguniform(1e-4, 0.5)
            elif k == "frac":
                v = rs.uniform(0.5, 30.0)
            elif k == "int":
                v = float(rs.randint(0, 40))
            else:
                # (many just above 100: the regime where an implementation is tempted to switch to an approximation, and
                #  where a bias of half a molecule per draw weighs most)
                v = rs.uniform(100.0, 260.0) if rs.chance(0.45) else (rs.loguniform(100.0, 2000.0) if rs.chance(0.6) else float(rs.randint(100, 2000)))
            st.append(v)
    return st


def generate(seed, tier, index):
    base = Stream(ID, seed, tier, index)
    rs, ru, rk, rf = base.sub("spec"), base.sub("units"), base.sub("script"), base.sub("sched")
    kind = rs.wchoice([("euler", 1), ("tauleap", 3), ("gillespie", 3)])
    isp = rs.wchoice([("auto", 4), ("redist", 3), ("Poisson", 4), ("none", 1)])
    spec = gen.gen_spec(rs, dict(n_species=(1, 5), n_reactions=(0, 2), max_cells=24, graph_nodes=(1, 8), graph_edges=(0, 8),
                                 chem="mixed"))
    m0 = Model(spec)
    klass = rs.wchoice([("mixed", 5), ("tiny", 2), ("int", 2), ("large", 2), ("frac", 1)])
    if isp == "Poisson" and rs.chance(0.35):
        klass = "large"      # the regime where an implementation is tempted to switch to a normal approximation
    spec["state"] = gen_state(rs, m0.ns, m0.nc, klass)
    scale = None
    if index % 150 == 31 and isp in ("auto", "redist"):
        scale = "cells"
    elif index % 45 == 12 and isp == "Poisson":
        scale = "giant"
    if scale == "cells":
        # more than a thousand cells with the mass concentrated in a few of them: the correction of the redistributed
        # totals has far to go
        dims = rs.choice([[16, 16, 4], [12, 10, 10], [1100, 1, 1], [33, 33, 1]])
        ncb = dims[0] * dims[1] * dims[2]
        spec["space"] = {"type": "grid", "w": dims[0], "h": dims[1], "d": dims[2], "bc": ["reflecting"] * 3,
                         "cell_env": [0] * ncb, "vol": (rs.loguniform(0.5, 2.0) * 1e-6) ** 3}
        spec["envs"] = spec["envs"][:1]
        for sp_ in spec["species"]:
            for key in ("D", "dens", "chst"):
                sp_[key] = sp_[key][:1]
        for r_ in spec["reactions"]:
            r_["kf"], r_["kr"] = r_["kf"][:1], r_["kr"][:1]
        spec["chem"] = None
        m0 = Model(dict(spec, state=None))
        stb = [0.0] * (m0.ns * ncb)
        for s_ in range(m0.ns):
            for _ in range(rs.randint(1, 3)):
                stb[s_ * ncb + rs.randint(0, ncb - 1)] = rs.uniform(500.0, 4000.0)
            for _ in range(rs.randint(0, 30)):
                stb[s_ * ncb + rs.randint(0, ncb - 1)] += rs.uniform(0.0, 1.0)
        spec["state"] = stb
        klass = "thousand_cells_concentrated"
    elif scale == "giant":
        # entries of billions of molecules (beyond the 32-bit range) next to ordinary ones: still independent Poisson draws
        gi = rs.randint(0, m0.ns * m0.nc - 1)
        spec["state"][gi] = float(int(rs.uniform(2.3e9, 8e9)))
        klass = "giant_entry"
    near_int = scale is None and isp in ("auto", "redist") and rs.chance(0.08)
    if near_int:
        # whole numbers everywhere except one entry per species that misses (or exceeds) a whole number by 1e-10 .. 5e-10
        # molecule: the real total is that close to an integer, and its floor is still its floor
        klass = "near_int"
        st_ = [float(rs.randint(0, 6)) for _ in range(m0.ns * m0.nc)]
        for s_ in range(m0.ns):
            i_ = rs.randint(0, m0.nc - 1)
            st_[s_ * m0.nc + i_] = float(rs.randint(1, 6)) + rs.choice([-1.0, -1.0, 1.0]) * rs.choice([1e-10, 2e-10, 5e-10])
            if rs.chance(0.35):
                # a species whose real total is exactly one molecule (one whole molecule, two halves, four quarters)
                for j_ in range(m0.nc):
                    st_[s_ * m0.nc + j_] = 0.0
                parts = rs.choice([1, 2, 4])
                for j_ in rs.sample(list(range(m0.nc)), min(parts, m0.nc)):
                    st_[s_ * m0.nc + j_] = 1.0 / min(parts, m0.nc) if min(parts, m0.nc) in (1, 2, 4) else 0.0
                if min(parts, m0.nc) not in (1, 2, 4):
                    st_[s_ * m0.nc] = 1.0
        spec["state"] = st_
    default_state = (not near_int) and scale is None and rs.chance(0.1)
    if default_state:
        # no explicit state: density x volume, computed by the front end in whatever units the network / species declare
        klass = "default_state"
        spec["state"] = None
    exact_int = (not default_state) and all(v == math.floor(v) for v in spec["state"])
    # exact-integer workloads: state written in molecules so that no unit round trip touches the integers
    rich = (rs.chance(0.5) or default_state) and not exact_int and not near_int and scale is None
    entry = C.make_script_entry(rs, ru, rk, kind, None, {"steps": (2, 6), "isp": isp, "p_seed": 1.0, "policy": "on_iteration", "tauleap_fractional_none": 1.0},
                                rich=rich, mild_units=True, spec=spec)
    if default_state and rs.chance(0.6):
        # the script is written in the very units system the system object declares for itself (network, species and space
        # may declare others): the default state, computed in the network's units, still reaches the engine converted
        sysd_ = entry["system"]
        uk_ = None
        for n_ in ("units", "units_system", "units system", "u"):
            if n_ in sysd_:
                uk_ = sysd_[n_]
        sys_eff = uk_ if isinstance(uk_, dict) else (dict(si.DEFAULT_US) if uk_ == "default" else entry["parent_us"])
        if gen.boundary_numbers_ok(spec, gen.engine_units(sys_eff, kind)):
            entry["script"] = gen.render_script(ru.sub("sysus"), entry["phys"]["sp"], sys_eff, rich=True)
            entry["phys"]["us"] = dict(sys_eff)
            entry["phys"]["eu"] = gen.engine_units(sys_eff, kind)
    if kind != "euler" and entry["phys"]["sp"]["isp"] != isp:
        # gen_script refused 'none' on a non-integer state for a stochastic engine
        isp = entry["phys"]["sp"]["isp"]
    K = 200 if isp == "Poisson" else rf.randint(8, 40)
    if scale == "cells":
        K = rf.randint(3, 6)
    if isp == "Poisson" and klass == "large":
        K = 500
    if tier == "thorough" and isp == "Poisson":
        K = 600
    seeds = [rf.bits(31) for _ in range(K)]
    # reproducibility: some seeds appear twice
    for _ in range(3):
        seeds.append(seeds[rf.randint(0, K - 1)])
    if rf.chance(0.5):
        # boundary seeds, each twice (kept out of the first K set-ups: the pooled statistics need independent streams, and
        # the same few boundary seeds recur in many cases)
        b = rf.choice([0, 0, 1, 2 ** 31 - 1, 2 ** 32 - 1])
        seeds += [b, b]
    batch = ["setup_batch", seeds]
    if rf.chance(0.3):
        # some of the set-ups are used (iterated, output fetched) and not finalized before the next one, the last one included
        batch.append({"run_every": rf.choice([2, 3, len(seeds)])})
    ops = [["poison", rf.choice([0, 0xff])], batch, ["poison", rf.choice([0, 0x7f])], ["setup"],
           ["observe"], ["output"], ["finalize"]]
    eps = [{"obj": 0, "kind": kind, "via": rf.choice(["LibRDEngine", "factory"]), "script": 0, "ops": ops}]
    return {"format": 1, "property": ID, "seed": seed, "tier": tier, "index": index, "build": "plain",
            "scripts": [entry], "lifetimes": [{"pyseed": rf.bits(30), "episodes": eps}],
            "meta": {"kind": kind, "isp": isp, "klass": klass, "exact_int": exact_int, "K": K}}


def check(case, results):
    viol = []
    meta = case["meta"]
    kind, isp = meta["kind"], meta["isp"]
    eff = isp
    if isp == "auto":
        eff = "none" if kind == "euler" else "redist"
    stats = {"cases": 1, "lifetimes": 1, "modes": {"%s/%s" % (kind, isp): 1}, "classes": {meta["klass"]: 1}}
    res = results[0]
    phys = case["scripts"][0]["phys"]
    m = Model(phys["spec"])
    ctx = {"class": "violation", "lifetime": 0, "episode": 0}
    for ev in res.events:
        if "exc" in ev:
            viol.append(dict(ctx, oracle="C14.no-exception", op=ev["i"], detail=ev["exc"] + "\n" + ev.get("tb", "")))
    evs = {ev["i"]: ev for ev in res.events if "exc" not in ev and not ev.get("skipped")}
    if 1 not in evs:
        stats["nontrivial"] = 0
        return viol, stats
    b = evs[1]
    if b["status"]:
        viol.append(dict(ctx, **{"class": "hang", "oracle": "C14.terminates", "op": 1,
                                 "detail": "the redistribution loop exceeded its budget (%d passes)" % b["loops"]}))
    stats["max_correction_loops"] = b["loops"]
    seeds = case["lifetimes"][0]["episodes"][0]["ops"][1][1]
    size = m.ns * m.nc
    X = np.frombuffer(b["xs"], dtype=np.float64).reshape(len(seeds), m.ns, m.nc)
    fq = si.factor(b["eus"], si.DIM_QUANTITY)          # engine quantity unit in molecules
    real = m.x0 / fq                                   # the real-valued state in engine units
    stats["setups"] = len(seeds)
    stats["engine_steps"] = 0
    # reproducibility
    first = {}
    for k, sd in enumerate(seeds):
        if sd in first:
            stats["repro_pairs"] = stats.get("repro_pairs", 0) + 1
            if X[first[sd]].tobytes() != X[k].tobytes():
                viol.append(dict(ctx, oracle="C14.reproducible", op=1,
                                 detail="seed %d gave two different initial states in the same process" % sd))
                break
        else:
            first[sd] = k
    if eff == "none":
        for k in range(len(seeds)):
            if np.any(np.abs(X[k] - real) > 1e-12 * np.abs(real)):
                d = np.argwhere(np.abs(X[k] - real) > 1e-12 * np.abs(real))[0]
                viol.append(dict(ctx, oracle="C14.pass-through", op=1,
                                 detail="mode %s on %s: entry (species %d, cell %d) is %r, the state says %r" % (
                                     isp, kind, d[0], d[1], X[k][d[0], d[1]], real[d[0], d[1]])))
                break
    else:
        if fq != 1.0 and kind != "euler":
            viol.append(dict(ctx, oracle="C14.engine-works-in-molecules", op=1,
                             detail="a molecule-counting engine (%s, created through %s) was handed the state in %r, not in molecules: "
                                    "'whole molecules' then means whole units of that" % (
                                        kind, case["lifetimes"][0]["episodes"][0].get("via"), b["eus"].get("quantity"))))
        # integrality, non-negativity, zero preservation
        if np.any(X < 0) or np.any(X != np.floor(X)):
            d = np.argwhere((X < 0) | (X != np.floor(X)))[0]
            viol.append(dict(ctx, oracle="C14.integers", op=1,
                             detail="mode %s: seed #%d entry (species %d, cell %d) = %r" % (isp, d[0], d[1], d[2], X[tuple(d)])))
        zero = (real == 0)
        if zero.any() and np.any(X[:, zero] != 0):
            viol.append(dict(ctx, oracle="C14.zero-stays-zero", op=1,
                             detail="mode %s: a cell whose real-valued amount is 0 received molecules" % isp))
        stats["zero_entries"] = int(zero.sum())
        if eff == "redist":
            tot_real = real.sum(axis=1)
            # the engine sums in the same order (cell by cell); ties near an integer accept both floors
            for s in range(m.ns):
                t = float(tot_real[s])
                lo = math.floor(t * (1 - 1e-9) - 1e-12)
                hi = math.floor(t * (1 + 1e-9) + 1e-12)
                if meta["exact_int"]:
                    lo = hi = int(round(t))
                elif meta["klass"] == "near_int":
                    # written in molecules, at most a few dozen per species: the sum is good to ~1e-14
                    lo, hi = math.floor(t - 2e-11), math.floor(t + 2e-11)
                    if np.all(real[s] * 4 == np.floor(real[s] * 4)):
                        lo = hi = math.floor(t)       # quarters add up exactly: no tie to allow for
                        stats["totals_of_exactly_a_whole_number_from_fractions"] = stats.get("totals_of_exactly_a_whole_number_from_fractions", 0) + 1
                    stats["totals_within_1e-9_of_a_whole_number"] = stats.get("totals_within_1e-9_of_a_whole_number", 0) + 1
                got = X[:, s, :].sum(axis=1)
                if np.any((got < lo) | (got > hi)):
                    k = int(np.argmax((got < lo) | (got > hi)))
                    viol.append(dict(ctx, oracle="C14.totals", op=1,
                                     detail="mode %s: species %d totals %r molecules for seed #%d, floor of the real total %r is %d" % (
                                         isp, s, float(got[k]), k, t, lo)))
                    break
                if t < 1:
                    stats["total_below_one_molecule"] = stats.get("total_below_one_molecule", 0) + 1
            if b["loops"] > 0:
                stats["correction_loop_ran"] = 1
            if (real >= 100).any():
                stats["normal_branch_ge_100"] = 1
        elif eff == "Poisson":
            K = meta["K"]
            Xk = X[:K]
            lam = real
            pos = lam > 0
            if pos.any():
                from ..stats import poisson_tail_p
                mean = Xk.mean(axis=0)
                tot = Xk.sum(axis=0)
                z = np.zeros_like(lam)
                z[pos] = (mean[pos] - lam[pos]) * np.sqrt(K / lam[pos])
                stats["poisson_entries_tested"] = int(pos.sum())
                # pooled over the whole run (global_check): a small common bias of the mean, e.g. a truncated normal used
                # in place of the Poisson law for large means, is invisible per entry
                big = lam >= 100.0
                stats["g"] = {"pm_num": float((tot[pos] - K * lam[pos]).sum()), "pm_den": float(K * lam[pos].sum()),
                              # weights 1/lambda: a bias that does not grow with the mean (floor of a normal draw: -0.5)
                              "pmb_num": float(((tot[big] - K * lam[big]) / lam[big]).sum()),
                              "pmb_den": float((K / lam[big]).sum())}
                # exact test: the sum of K independent Poisson(lam) draws is Poisson(K*lam)
                worst_p, worst_d = 1.0, None
                for d in np.argwhere(pos):
                    d = tuple(d)
                    if abs(z[d]) > 4.0:
                        p = poisson_tail_p(float(tot[d]), K * float(lam[d]))
                        if p < worst_p:
                            worst_p, worst_d = p, d
                if worst_p < PMIN:
                    d = worst_d
                    viol.append(dict(ctx, oracle="C14.poisson-mean", op=1,
                                     detail="Poisson mode: entry (species %d, cell %d) has real amount %r but its mean over %d seeds "
                                            "is %r (exact two-sided tail probability %.2g)" % (
                                                d[0], d[1], float(lam[d]), K, float(mean[d]), worst_p)))
                else:
                    # pooled variance and zero-class statistics
                    dev = Xk - lam
                    num = ((dev ** 2)[:, pos] - lam[pos]).sum()
                    den = math.sqrt(K * float((lam[pos] + 2 * lam[pos] ** 2).sum()))
                    zv = num / den if den > 0 else 0.0
                    p0 = np.exp(-lam[pos])
                    num0 = ((Xk[:, pos] == 0) - p0).sum()
                    den0 = math.sqrt(K * float((p0 * (1 - p0)).sum()))
                    z0 = num0 / den0 if den0 > 1e-6 else 0.0
                    stats["poisson_max_abs_z_mean"] = float(np.abs(z).max())
                    # (normal approximation: only with enough expected counts behind the pooled sums)
                    if K * float(lam[pos].sum()) < 300:
                        zv = 0.0
                    if K * float((p0 * (1 - p0)).sum()) < 300:
                        z0 = 0.0
                    if abs(zv) > ZMAX:
                        viol.append(dict(ctx, oracle="C14.poisson-variance", op=1,
                                         detail="Poisson mode: pooled variance statistic z=%.1f over %d draws" % (zv, K * int(pos.sum()))))
                    if abs(z0) > ZMAX:
                        viol.append(dict(ctx, oracle="C14.poisson-zero-class", op=1,
                                         detail="Poisson mode: zero-class statistic z=%.1f" % z0))
                    # independence probe: residual correlation of consecutive entries
                    idx = np.argwhere(pos)
                    if len(idx) >= 2:
                        r = (dev / np.sqrt(np.where(pos, lam, 1.0)))
                        flat = r.reshape(K, -1)[:, pos.ravel()]
                        prod = (flat[:, :-1] * flat[:, 1:]).sum()
                        npairs = K * (flat.shape[1] - 1)
                        # variance of a product of standardised Poisson residuals is ~1 (exactly 1 under independence)
                        zc = prod / math.sqrt(npairs)
                        # heavy tails for tiny means: use a generous bound
                        lam_min = float(lam[pos].min())
                        if lam_min >= 0.5 and abs(zc) > ZMAX + 2:
                            viol.append(dict(ctx, oracle="C14.poisson-independence", op=1,
                                             detail="residuals of neighbouring entries correlate (z=%.1f)" % zc))
    # the trajectory's sample 0 is the state right after set-up
    if 4 in evs and 5 in evs:
        o = evs[4]
        out = evs[5]
        if out["n"] >= 1:
            if out["raw_x"][:8 * size] != o["x"]:
                viol.append(dict(ctx, oracle="C14.sample0", op=5, detail="sample 0 is not the processed initial state"))
            else:
                # ... and what the user receives is that state in the script's units
                us = phys["us"]
                fq2 = si.factor(evs[3]["eus"], si.DIM_QUANTITY) / si.factor(us, si.DIM_QUANTITY) if "eus" in evs.get(3, {}) else None
                if fq2 is not None:
                    d0 = np.frombuffer(out["data"], dtype=np.float64)[:size]
                    x0_ = np.frombuffer(o["x"], dtype=np.float64)
                    if np.any(np.abs(d0 - x0_ * fq2) > 1e-13 * np.abs(d0) + 1e-300 * 0) and np.any(np.abs(d0 - x0_ * fq2) > 1e-13 * np.abs(x0_ * fq2)):
                        viol.append(dict(ctx, oracle="C14.sample0", op=5,
                                         detail="trajectory.data at t=0 is not the processed initial state expressed in the script's units"))
            if 3 in evs and evs[3].get("status"):
                viol.append(dict(ctx, **{"class": "hang", "oracle": "C14.terminates", "op": 3,
                                         "detail": "the redistribution loop exceeded its budget"}))
    stats["nontrivial"] = 1 if len(seeds) >= 2 else 0
    return viol, stats


def global_check(total):
    out, info = [], {}
    g = total.get("g") or {}
    for nm, what in (("pm", "all entries"), ("pmb", "entries with mean >= 100")):
        if g.get(nm + "_den", 0) > (1000 if nm == "pm" else 20):
            z = g[nm + "_num"] / math.sqrt(g[nm + "_den"])
            info["pooled_poisson_mean_z (%s)" % what] = z
            if abs(z) > ZMAX:
                out.append({"class": "violation", "oracle": "C14.pooled-poisson-mean",
                            "detail": "Poisson mode, %s: pooled (draw - real amount) = %.1f over an expected variance of %.3g "
                                      "(z=%.1f): the draws do not have the real-valued amount as mean" % (
                                          what, g[nm + "_num"], g[nm + "_den"], z)})
    return out, info


def describe(case):
    m = Model(case["scripts"][0]["phys"]["spec"])
    return {"engine": case["meta"]["kind"], "mode": case["meta"]["isp"], "state_class": case["meta"]["klass"],
            "real_state_molecules": m.x0.tolist(), "n_seeds": case["meta"]["K"]}


RULE = ("case = one system (1-5 species x 1-24 cells, grid or graph) with a drawn real-valued state (zero / below one molecule "
        "/ fractional / exact integers / above the Poisson-normal switch at 100), one engine and one processing mode; the script "
        "is set up once per seed for 8-40 seeds (200 in Poisson mode, 600 thorough; three seeds repeated) and the state right after "
        "each set-up is read; non-trivial = at least 2 set-ups; distinct = distinct case index")
ASSUMPTIONS = ["statistical thresholds: 6.5 sigma per entry mean and per pooled statistic (false-alarm probability < 1e-9 per test)",
               "ties: when a real-valued total is within 1e-9 relative of an integer both floors are accepted, except for "
               "exact-integer workloads written in molecules"]
