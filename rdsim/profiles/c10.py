"""C10 -- simulations terminate, and the engine lifecycle is crash-free and isolated.

Random lifecycle histories over 1-3 engine objects and 1-6 set-ups with faults F5-F9 (finalize mid-run, abandon,
repeated finalize, calls after completion, overlapping engine objects), checked op by op against the reference state
machine M-life. Each script also runs alone in a fresh lifetime (iterate only), which gives the number of
iterations to completion and the bytes a clean-slate set-up must reproduce."""
import math

import numpy as np

from ..models import Model
from ..prng import Stream
from . import common as C

ID = "C10"
LEVEL = "exploration"

SPEC_P = dict(n_species=(1, 3), n_reactions=(0, 3), max_cells=8, graph_nodes=(1, 5), graph_edges=(0, 6),
              n_mol=(0.02, 60.0), state="mixed")
CAP = 4000


def n_cases(tier):
    return 1800 if tier == "quick" else 50000


def timeout(tier):
    return 20.0 if tier == "quick" else 120.0


# ------------------------------------------------------------------------------------------------ generation
def _loop_op(rf, steps):
    c = rf.wchoice([("iterate", 4), ("iterate_n", 3), ("run", 3)])
    if c == "iterate":
        return ["iterate"]
    if c == "iterate_n":
        return ["iterate_n", rf.wchoice([(0, 1), (1, 2), (rf.randint(2, 9), 4), (rf.randint(10, 80), 2), (10 ** 6, 1)])]
    ms = rf.wchoice([(0, 1), (1, 2), (rf.randint(2, 50), 3), (1000, 2)])
    vals, _ = C.random_clock_plan(rf, ms, rf.randint(1, max(2, steps)))
    return ["run", ms, vals]


def gen_history(rf, nscripts, kinds, steps, overlap, sweep=None):
    """list of episodes (obj, script, ops). Sequential: ops only on the open object; set-up/finalize of any object
    while no object is open. Overlap: a second object is set up and operated while the first is open."""
    nobj = rf.randint(1, 3)
    eps = []
    faults = set()
    state = {}          # obj -> fresh | open | finalized | abandoned
    open_obj = None
    nops = rf.randint(3, 40)
    nsetups = 0

    def new_ep(obj, script, ops, new=False):
        eps.append({"obj": obj, "new": new, "kind": kinds[script], "via": rf.choice(["LibRDEngine", "factory"]),
                    "script": script, "ops": ops})

    cur_script = {}
    k = 0
    while k < nops:
        if open_obj is None:
            # nobody is open: finalize something again, or set up
            cands = [o for o, s in state.items() if s == "finalized"]
            if cands and rf.chance(0.2):
                o = rf.choice(cands)
                reps = rf.randint(1, 3)
                new_ep(o, cur_script[o], [["finalize"]] * reps)
                faults.add("F7_repeated_finalize")
                k += reps
                continue
            if nsetups >= 6:
                break
            o = rf.randint(0, nobj - 1)
            s = rf.randint(0, nscripts - 1)
            if state.get(o) == "abandoned":
                faults.add("F6_setup_after_abandon")
            if state.get(o) == "finalized":
                faults.add("setup_after_finalize")
            ops = [["poison", rf.choice([0, 0x7f, 0xff])], ["setup"]]
            if nscripts > 1 and rf.chance(0.15):
                ops.append(["script_touch", rf.choice([x for x in range(nscripts) if x != s])])
                faults.add("caller_reuses_script_object_after_setup")
            if rf.chance(0.5):
                ops.append(["is_complete"])
            new_ep(o, s, ops, new=(rf.chance(0.3) and state.get(o) != "open"))
            state[o] = "open"
            cur_script[o] = s
            open_obj = o
            nsetups += 1
            k += 1
            continue
        o = open_obj
        s = cur_script[o]
        c = rf.wchoice([("loop", 10), ("drive", 2), ("sample", 1), ("progress", 1), ("is_complete", 2), ("output", 2),
                        ("oso", 1),
                        ("observe", 1), ("finalize", 2), ("abandon", 1), ("resetup", 1), ("fetch_resetup_fetch", 1),
                        ("overlap", 3 if overlap else 0)])
        if c == "loop":
            new_ep(o, s, [_loop_op(rf, steps[s])])
        elif c == "drive":
            plan = [_loop_op(rf, steps[s]) for _ in range(rf.randint(1, 3))]
            if not any(p[0] == "iterate" or p[0] == "run" or (p[0] == "iterate_n" and p[1] >= 1) for p in plan):
                plan.append(["iterate"])
            ops = [["drive", plan, CAP], ["is_complete"], ["observe"]]
            for _ in range(rf.randint(0, 3)):
                ops.append(_loop_op(rf, steps[s]))
                ops.append(["observe"])
                faults.add("F8_calls_after_completion")
            ops.append(["is_complete"])
            new_ep(o, s, ops)
        elif c == "sample":
            new_ep(o, s, [["sample"]])
        elif c == "progress":
            new_ep(o, s, [["observe"], ["progress"], ["observe"]])
        elif c == "is_complete":
            new_ep(o, s, [["is_complete"]])
        elif c == "output":
            ops = [["output"], ["output"]] if rf.chance(0.5) else [["output"]]
            new_ep(o, s, ops)
        elif c == "oso":
            # fetch, record by hand, fetch again: the second fetch must size its buffers for the new record count
            new_ep(o, s, [["output"], ["sample"], ["output"]] + ([["sample"], ["output"]] if rf.chance(0.3) else []))
        elif c == "observe":
            new_ep(o, s, [["observe"]])
        elif c == "finalize":
            reps = rf.wchoice([(1, 3), (2, 2), (4, 1)])
            new_ep(o, s, [["finalize"]] * reps)
            if reps > 1:
                faults.add("F7_repeated_finalize")
            faults.add("F5_finalize_any_point")
            state[o] = "finalized"
            open_obj = None
        elif c == "abandon":
            state[o] = "abandoned"
            open_obj = None
            faults.add("F6_abandon")
        elif c == "resetup":
            if nsetups < 6:
                s2 = rf.randint(0, nscripts - 1)
                ops = [["setup"], ["is_complete"]]
                new_ep(o, s2, ops)
                cur_script[o] = s2
                nsetups += 1
                faults.add("resetup_without_finalize")
        elif c == "fetch_resetup_fetch":
            # the output is fetched, the same object is set up again (another script when there is one) without a finalize
            # in between, and the output is fetched again at once: same record count, other content
            if nsetups < 6:
                s2 = rf.choice([x for x in range(nscripts) if x != s] or [s])
                new_ep(o, s, [["output"]])
                new_ep(o, s2, [["setup"], ["output"], ["is_complete"]])
                cur_script[o] = s2
                nsetups += 1
                faults.add("fetch_resetup_fetch")
        elif c == "overlap":
            # F9: another object is set up / operated / finalized while `o` is open
            o2 = rf.choice([x for x in range(3) if x != o])
            s2 = rf.randint(0, nscripts - 1)
            ops = []
            what = rf.wchoice([("setup", 4), ("finalize", 2)])
            if what == "setup":
                ops = [["setup"]] + [_loop_op(rf, steps[s2]) for _ in range(rf.randint(0, 3))] + [["is_complete"]]
                cur_script[o2] = s2
                state[o2] = "open2"
            else:
                ops = [["finalize"]]
                s2 = cur_script.get(o2, s2)
            new_ep(o2, s2, ops)
            # then the first object goes on
            new_ep(o, s, [["is_complete"], _loop_op(rf, steps[s]), ["is_complete"]])
            faults.add("F9_overlap")
        k += 1
    return eps, sorted(faults)


def generate(seed, tier, index, pid=ID, spec_p=None, p_overlap=0.06, script_p=None):
    base = Stream(pid, seed, tier, index)
    rs, ru, rk, rf = base.sub("spec"), base.sub("units"), base.sub("script"), base.sub("sched")
    overlap = rf.chance(p_overlap)
    spec_p = spec_p or SPEC_P
    script_p = script_p or {"steps": (2, 30), "allow_empty_ts": True, "p_seed": 1.0}
    nscripts = rf.randint(1, 3)
    scripts, kinds, steps = [], [], []
    same_dims_spec = None
    period0 = 16 if tier == "quick" else 4
    is_sweep = (pid == ID and index % period0 == period0 - 1)
    for j in range(0 if is_sweep else nscripts):
        kind = rs.sub(j).choice(C.KINDS)
        if j > 0 and rs.sub(j, "samekind").chance(0.4):
            kind = kinds[0]
        spec = same_dims_spec if (overlap and same_dims_spec is not None) else None
        if spec is None and j > 0 and rs.sub(j, "sibq").chance(0.3 if pid == ID else 0.6):
            # a sibling of script 0: same species and space, same number of reactions, other stoichiometry/constants
            from .. import gen
            # (the memory-safety profile also grows the network: buffers sized by an earlier, smaller set-up)
            spec = gen.sibling_spec(rs.sub(j, "sib"), scripts[0]["phys"]["spec"], spec_p,
                                    nr_delta=(rs.sub(j, "sibd").randint(1, 3) if pid != ID else 0))
            kind = kinds[0] if rs.sub(j, "sibk").chance(0.8) else kind
        e = C.make_script_entry(rs.sub(j), ru.sub(j), rk.sub(j), kind, spec_p, script_p, rich=rs.chance(0.3), spec=spec)
        if kind == "tauleap" and spec is None and not overlap and rs.sub(j, "giant").chance(0.07):
            # a step in which one channel fires billions of times (beyond the int range half of the time): every call returns
            e = C.giant_entry(rs.sub(j, "g"), rk.sub(j, "g")) if rs.sub(j, "gb").chance(0.5) else \
                C.blowup_entry(rs.sub(j, "g"), rk.sub(j, "g"))
        if j == 0 and spec is None and not overlap:
            sc = None
            if pid == "C11":
                sc = "species" if index % 16 == 5 else ("cells4k" if index in (41, 121) else ("cells33k" if index == 13 else None))
            elif index % 60 == 9:
                sc = "species"
            if sc:
                # inputs at scales the ordinary generator never reaches (more than 32 species, thousands of cells)
                e = C.scale_entry(rs.sub(j, "scale"), ru.sub(j), rk.sub(j), kind, sc, steps=(3, 8))
        if overlap and same_dims_spec is None:
            same_dims_spec = e["phys"]["spec"]
        scripts.append(e)
        kinds.append(kind)
        steps.append(e["phys"]["sp"]["steps"])
    sweep = None
    period = 16 if tier == "quick" else 4
    if pid == ID and index % period == period - 1:
        # fault-point sweep: a seeded base history of 15 loop ops, re-run with one lifecycle fault at every position
        w = index // period
        group, within = w // 48, w % 48
        sweep = {"group": group, "position": within % 16, "fault": ["F5_finalize_resetup", "F6_abandon_new_object",
                                                                    "F7_finalize_x3_resetup"][within // 16]}
        gb = Stream(pid, seed, tier, "sweep", group)
        rs, ru, rk, rf = gb.sub("spec"), gb.sub("units"), gb.sub("script"), gb.sub("sched")
        overlap = False
        nscripts = 1
    lifetimes = []
    if sweep is not None:
        kind = rs.choice(C.KINDS)
        e = C.make_script_entry(rs, ru, rk, kind, spec_p, dict(script_p, steps=(6, 30)), rich=rs.chance(0.3))
        scripts, kinds, steps = [e], [kind], [e["phys"]["sp"]["steps"]]
    for j in range(nscripts):
        lifetimes.append({"pyseed": 1, "episodes": [
            {"obj": 0, "kind": kinds[j], "via": "LibRDEngine", "script": j,
             "ops": [["poison", 0], ["setup"], ["is_complete"], ["drive", [["iterate"]], CAP], ["is_complete"], ["output"],
                     ["observe"], ["iterate"], ["observe"], ["finalize"]]}]})
    if sweep is None:
        eps, faults = gen_history(rf, nscripts, kinds, steps, overlap)
    else:
        base = [_loop_op(rf, steps[0]) for _ in range(15)]
        eps = []
        cur = 0

        def ep(obj, ops, new=False):
            eps.append({"obj": obj, "new": new, "kind": kinds[0], "via": "LibRDEngine", "script": 0, "ops": ops})
        ep(0, [["poison", 0], ["setup"], ["is_complete"]])
        for k in range(16):
            if k == sweep["position"]:
                if sweep["fault"] == "F5_finalize_resetup":
                    ep(cur, [["finalize"], ["setup"], ["is_complete"]])
                elif sweep["fault"] == "F6_abandon_new_object":
                    cur = 1
                    ep(cur, [["setup"], ["is_complete"]], new=True)
                else:
                    ep(cur, [["finalize"], ["finalize"], ["finalize"], ["setup"], ["is_complete"]])
            if k < 15:
                ep(cur, [base[k], ["is_complete"]])
        ep(cur, [["drive", [["iterate_n", 5]], CAP], ["is_complete"], ["output"], ["output"], ["finalize"], ["finalize"]])
        faults = ["sweep:" + sweep["fault"]]
    lifetimes.append({"pyseed": rf.bits(30), "episodes": eps})
    return {"format": 1, "property": pid, "seed": seed, "tier": tier, "index": index, "build": "plain",
            "scripts": scripts, "lifetimes": lifetimes,
            "meta": {"overlap": overlap, "faults": faults, "nscripts": nscripts, "kinds": kinds, "sweep": sweep}}


def continue_after(case, results):
    """the history lifetime is not run when a reference lifetime did not complete within the cap (an exact
    stochastic run may legitimately need any number of events) or failed"""
    for res in results:
        if res.status != "ok":
            return False
        for ev in res.events:
            if ev["op"] == "drive" and ("exc" in ev or not ev.get("done", False)):
                return False
            if ev["op"] == "setup" and ("exc" in ev or ev.get("status")):
                return False
    return True


# ------------------------------------------------------------------------------------------------ M-life
def run_iterations(plan, ms):
    """number of Iterate() calls engineexport_run makes under an absolute clock plan (ignoring completion)"""
    t0 = plan[0]
    for j in range(1, len(plan)):
        if plan[j] - t0 >= ms:
            return j
    return None  # the plan never ends the slice: not generated


class Obj:
    def __init__(self):
        self.state = "fresh"
        self.script = None
        self.iters = 0
        self.sampled = False
        self.tainted = False   # operated while another engine object was between set-up and finalize (F9)
        self.kind = None


def check(case, results):
    viol = []
    meta = case["meta"]
    ns_scripts = meta["nscripts"]
    stats = {"cases": 1, "lifetimes": len(results), "faults": {f: 1 for f in meta["faults"]},
             "config": {"overlap" if meta["overlap"] else ("sweep" if meta.get("sweep") else "sequential"): 1},
             "mlife_pairs": set()}
    if meta.get("sweep"):
        stats["sweep_points"] = {"%s@%d" % (meta["sweep"]["fault"], meta["sweep"]["position"])}
    # ---- reference lifetimes
    N = {}
    refbytes = {}
    for j in range(min(ns_scripts, len(results))):
        res = results[j]
        evs = {ev["i"]: ev for ev in res.events}
        bad = [ev for ev in res.events if "exc" in ev]
        if bad:
            viol.append({"class": "violation", "oracle": "C10.no-exception", "lifetime": j, "episode": 0, "op": bad[0]["i"],
                         "detail": bad[0]["exc"] + "\n" + bad[0].get("tb", "")})
            continue
        if res.status != "ok" or 3 not in evs:
            continue
        st = evs[1]
        if st.get("status"):
            viol.append({"class": "hang", "oracle": "C10.setup-terminates", "lifetime": j, "episode": 0, "op": 1,
                         "detail": "set-up exceeded the loop budget of the initial-state redistribution (%d passes)" % st.get("loops", -1)})
            continue
        if evs[2]["ret"] is not False:
            viol.append({"class": "violation", "oracle": "C10.is-complete-current-setup", "lifetime": j, "episode": 0,
                         "op": 2, "detail": "is_complete() is True right after set-up of a fresh engine"})
        d = evs[3]
        if not d["done"] and case["scripts"][j]["phys"]["kind"] == "gillespie":
            # an exact stochastic run has no step bound (e.g. autocatalytic growth): nothing is demanded, unless the
            # engine is stuck: a further iterate() that advances neither time nor completion can never terminate
            if 6 in evs and 8 in evs and 7 in evs and "exc" not in evs[7] and evs[7]["ret"] is True \
                    and evs[6]["t"] == evs[8]["t"] and evs[6]["x"] == evs[8]["x"]:
                viol.append({"class": "violation", "oracle": "C10.completes", "lifetime": j, "episode": 0, "op": 7,
                             "detail": "after %d iterate() calls a further call changes neither time nor state yet reports an "
                                       "unfinished simulation: the loop of simulate() would never return" % d["nloop"]})
            stats["gillespie_longer_than_cap"] = stats.get("gillespie_longer_than_cap", 0) + 1
            continue
        if not d["done"]:
            viol.append({"class": "violation", "oracle": "C10.completes", "lifetime": j, "episode": 0, "op": 3,
                         "detail": "simulation not complete after %d iterate() calls" % d["nloop"]})
            continue
        N[j] = d["nloop"]
        if evs[4]["ret"] is not True:
            viol.append({"class": "violation", "oracle": "C10.is-complete-current-setup", "lifetime": j, "episode": 0,
                         "op": 4, "detail": "is_complete() is False after the loop reported completion"})
        refbytes[j] = (evs[5]["t"], evs[5]["data"])
        # fixed-step engines: ceil(t_max/dt) give or take one
        ph = case["scripts"][j]["phys"]
        if ph["kind"] != "gillespie":
            sp = ph["sp"]
            tmax = sp["t_max"] if sp["t_max"] is not None else (sp["t_sample"][-1] if sp["t_sample"] else 0.0)
            want = math.ceil(tmax / sp["dt"])
            stats["fixed_step_completions"] = stats.get("fixed_step_completions", 0) + 1
            if abs(N[j] - want) > 1:
                viol.append({"class": "violation", "oracle": "C10.step-count", "lifetime": j, "episode": 0, "op": 3,
                             "detail": "completed after %d iterations; ceil(t_max/dt) = %d" % (N[j], want)})
        stats["engine_steps"] = stats.get("engine_steps", 0) + N[j]
    if len(N) < ns_scripts or len(results) <= ns_scripts:
        stats["nontrivial"] = 0
        return viol, stats
    # ---- the history
    li = ns_scripts
    res = results[li]
    lt = case["lifetimes"][li]
    objs = {}
    # M-shared (classification only): what the process-global native simulation holds
    g = {"script": None, "iters": 0, "complete": False, "freed": True, "owner": None}
    last_obs = None
    nchecked = 0
    known_hits = []
    evmap = {(ev["e"], ev["i"]): ev for ev in res.events}
    stopped = False
    keep_obs = False
    for ei, ep in enumerate(lt["episodes"]):
        if stopped:
            break
        oid = ep["obj"]
        if ep.get("new") or oid not in objs or objs[oid].kind != ep["kind"]:
            objs[oid] = Obj()
            objs[oid].kind = ep["kind"]
        O = objs[oid]
        for oi, op in enumerate(ep["ops"]):
            ev = evmap.get((ei, oi))
            if ev is None:
                stopped = True   # crash/timeout: reported by the generic classification
                break
            name = op[0]
            others_open = [Y for Y in objs.values() if Y is not O and Y.state in ("active", "complete")]
            if name != "poison" and others_open:
                # overlap: from here on neither this object nor the open ones are covered by the sequential contract
                O.tainted = True
                for Y in others_open:
                    Y.tainted = True
            elif name == "setup":
                O.tainted = False
            foreign = O.tainted
            ctx = {"class": "violation", "lifetime": li, "episode": ei, "op": oi}
            if ev.get("skipped"):
                continue
            if "exc" in ev:
                v = dict(ctx, oracle="C10.no-exception", detail=ev["exc"] + "\n" + ev.get("tb", ""))
                (known_hits if foreign else viol).append(v)
                continue
            if name == "poison":
                continue
            S = ep["script"]
            if name == "setup":
                O.state = "active"
                O.script = S
                O.iters = 0
                O.sampled = False
                g.update(script=S, iters=0, complete=False, freed=False, owner=O)
                if ev.get("status"):
                    viol.append(dict(ctx, **{"class": "hang", "oracle": "C10.setup-terminates",
                                             "detail": "set-up exceeded the loop budget of the redistribution loop"}))
                last_obs = None
                stats["mlife_pairs"].add(("setup", O.state))
                continue
            stats["mlife_pairs"].add((name, O.state, foreign))
            if foreign:
                # an engine object that is not the owner of the native singleton is operated: M-indep predictions below;
                # a mismatch here is what KF-1 (shared native simulation) produces
                pass
            pred = None
            if name in ("iterate", "iterate_n", "run"):
                if O.state == "complete":
                    pred = False
                    k = 0
                elif O.state == "active":
                    if name == "iterate":
                        k = 1
                    elif name == "iterate_n":
                        k = max(0, int(op[1]))
                    else:
                        k = run_iterations(op[2], op[1])
                    k = min(k, N[O.script] - O.iters)
                    O.iters += k
                    pred = O.iters < N[O.script]
                    if not pred:
                        O.state = "complete"
                else:
                    pred = None
                # M-shared bookkeeping
                if not g["freed"] and g["script"] is not None:
                    if name == "iterate":
                        kk = 1
                    elif name == "iterate_n":
                        kk = max(0, int(op[1]))
                    else:
                        kk = run_iterations(op[2], op[1])
                    if not g["complete"]:
                        kk = min(kk, N[g["script"]] - g["iters"])
                        g["iters"] += kk
                        g["complete"] = g["iters"] >= N[g["script"]]
                if O.state == "complete" and k == 0:
                    keep_obs = True
                if pred is not None:
                    nchecked += 1
                    if ev["ret"] != pred:
                        v = dict(ctx, oracle="C10.loop-return",
                                 detail="%s returned %r; the lifecycle model says %r (iterations so far %d of %d, state %s)" % (
                                     op[:2], ev["ret"], pred, O.iters, N[O.script], O.state))
                        (known_hits if foreign else viol).append(v)
                    if name == "run" and ev.get("underflow"):
                        viol.append(dict(ctx, oracle="C10.run-honours-clock",
                                         detail="run() kept iterating after the clock had reached the slice length"))
                if not keep_obs:
                    last_obs = None
                keep_obs = False
            elif name == "drive":
                if O.state in ("active", "complete"):
                    if not ev["done"]:
                        viol.append(dict(ctx, oracle="C10.completes",
                                         detail="not complete after %d loop calls" % ev["nloop"]))
                    O.state = "complete"
                    O.iters = N[O.script]
                    if g["owner"] is O:
                        g["iters"] = N[O.script]
                        g["complete"] = True
                last_obs = None
            elif name == "is_complete":
                if O.state in ("active", "complete"):
                    pred = (O.state == "complete")
                    nchecked += 1
                    if ev["ret"] != pred:
                        v = dict(ctx, oracle="C10.is-complete-current-setup",
                                 detail="is_complete() = %r, the current set-up is %s (iterations %d of %d)" % (
                                     ev["ret"], O.state, O.iters, N[O.script]))
                        (known_hits if foreign else viol).append(v)
            elif name == "progress":
                if not (isinstance(ev["ret"], float) and math.isfinite(ev["ret"])):
                    viol.append(dict(ctx, oracle="C10.progress-finite", detail="get_progress() = %r" % ev["ret"]))
            elif name == "sample":
                O.sampled = True
            elif name == "observe":
                cur = (ev["t"], ev["x"], ev["ns"])
                if last_obs is not None and last_obs[0] is O and last_obs[1] != cur:
                    v = dict(ctx, oracle="C10.read-only-calls",
                             detail="engine time/state/records changed across read-only calls or across loop calls made "
                                    "after completion (t %r -> %r, records %r -> %r)" % (last_obs[1][0], cur[0], last_obs[1][2], cur[2]))
                    (known_hits if foreign else viol).append(v)
                last_obs = (O, cur)
                continue
            elif name == "output":
                nchecked += 1
                prev = evmap.get((ei, oi - 1))
                if oi > 0 and ep["ops"][oi - 1][0] == "output" and prev is not None and "exc" not in prev:
                    if (prev["t"], prev["data"]) != (ev["t"], ev["data"]):
                        viol.append(dict(ctx, oracle="C10.output-repeatable",
                                         detail="two consecutive get_output() calls returned different trajectories"))
                if O.state == "complete" and not O.sampled:
                    stats["clean_slate_comparisons"] = stats.get("clean_slate_comparisons", 0) + 1
                    if (ev["t"], ev["data"]) != refbytes[O.script]:
                        v = dict(ctx, oracle="C10.clean-slate",
                                 detail="completed trajectory differs from the same script run alone in a fresh process "
                                        "(%d vs %d time points)" % (len(ev["t"]) // 8, len(refbytes[O.script][0]) // 8))
                        (known_hits if foreign else viol).append(v)
            elif name == "finalize":
                O.state = "finalized"
                if g["owner"] is O or foreign:
                    g["freed"] = True
                    if foreign:
                        g["owner_freed_by_other"] = True
                    else:
                        g["owner"] = None
                last_obs = None
            if name not in ("observe",):
                # keep the observation chain only across read-only calls
                if name not in ("progress", "is_complete", "output") and not (name in ("iterate", "iterate_n", "run") and O.state == "complete"):
                    last_obs = None
    # a crash/timeout while a tainted object is operated in an overlap history: KF-1 by construction
    if res.status in ("crash", "timeout") and res.mark is not None and meta["overlap"]:
        ei, oi = res.mark
        ep = lt["episodes"][ei]
        O = objs.get(ep["obj"])
        others_open = [Y for Y in objs.values() if Y is not O and Y.state in ("active", "complete")]
        if (O is not None and O.tainted) or others_open:
            stats["_drop_generic_crashes"] = True
            viol.append({"class": res.status, "oracle": "no-crash", "lifetime": li, "episode": ei, "op": oi, "kf1": True,
                         "detail": "crash/timeout at op %s of an engine object operated while another one was open\n%s" % (
                             ep["ops"][oi][:2], res.stderr[-1500:])})
    stats["ops_checked"] = nchecked
    stats["nontrivial"] = 1 if nchecked >= 3 else 0
    for v in known_hits:
        v["kf1"] = True
    viol.extend(known_hits)
    if meta["overlap"]:
        stats["_overlap_case"] = 1
    return viol, stats


def known_signature(case, v):
    """KF-1: only violations of overlap histories that were attributed to an op on a non-owner engine object, and
    crashes in overlap histories"""
    sigs = set()
    if case["meta"].get("overlap") and v.get("kf1"):
        sigs.add("KF-1")
    return sigs


def describe(case):
    lt = case["lifetimes"][-1]
    return {"overlap": case["meta"]["overlap"], "kinds": case["meta"]["kinds"], "faults": case["meta"]["faults"],
            "history": [[ep["obj"], ep["script"], [o if len(str(o)) < 120 else [o[0], "..."] for o in ep["ops"]]]
                        for ep in lt["episodes"]]}


def extra_coverage(total):
    return {"distinct_mlife_state_op_pairs": len(total.get("mlife_pairs", ())),
            "configurations": total.get("config")}


RULE = ("case = 1-3 scripts (any engine, incl. real-valued totals below one molecule), each run alone in a fresh lifetime "
        "(reference: iterations to completion, bytes), plus one history lifetime of 3-40 lifecycle ops over 1-3 engine objects "
        "and up to 6 set-ups with finalize at any point (x1-4), abandon, re-set-up, calls after completion, degenerate slices "
        "(run(0), iterate_n(0), huge n) and virtual-clock faults; 6% of the cases overlap two engine objects (F9). "
        "non-trivial = at least 3 ops with a model prediction checked")
ASSUMPTIONS = ["ops other than set-up/finalize on a finalized engine are not generated (documented lifecycle: finalize is called last)",
               "overlap histories use scripts of equal state size so that the library's own output buffers cannot overflow",
               "KF-1 classification: a mismatch is attributed to the known finding only in overlap histories and only when the "
               "op was executed on an engine object that is not the owner of the most recent set-up"]
