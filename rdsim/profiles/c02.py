"""C02 -- every engine conserves every conservation law of the network.

All three engines, long batched runs under any schedule; for every integer conservation vector c of the reference
stoichiometry (restricted to species without chemostated entries) sum_cells c.x is constant over all recorded
samples: exactly for the stochastic engines, to rounding for Euler."""
import numpy as np

from .. import traj
from ..models import Model
from ..prng import Stream
from . import common as C

ID = "C02"
LEVEL = "exploration"

SPEC_P = dict(n_species=(1, 5), n_reactions=(0, 4), max_order=3, max_cells=24, graph_nodes=(1, 8), graph_edges=(0, 12),
              n_mol=(1.0, 300.0), templates=0.6, p_zero_D=0.25, chem="mixed")


def gen_render(sp, us):
    from .. import gen
    return gen.render_script(Stream(ID, "dtail"), sp, us, rich=False)


def n_cases(tier):
    return 2400 if tier == "quick" else 60000


def timeout(tier):
    return 20.0 if tier == "quick" else 120.0


def generate(seed, tier, index):
    base = Stream(ID, seed, tier, index)
    rs, ru, rk, rf = base.sub("spec"), base.sub("units"), base.sub("script"), base.sub("sched")
    kind = rs.wchoice([("euler", 2), ("tauleap", 3), ("gillespie", 3)])
    p = dict(SPEC_P)
    if rs.chance(0.5):
        p["chem"] = "none"
    if rs.chance(0.3):
        p["n_reactions"] = (0, 0)           # diffusion alone
    huge = kind != "euler" and rs.chance(0.07)
    if huge:
        # molecule counts far above 2^24 per cell (still far below 2^31): totals must stay exact in what the user receives
        p.update(n_mol=(3e7, 2e8), integer_state=True, max_cells=6, graph_nodes=(1, 4), graph_edges=(0, 4), max_order=2,
                 p_zero_dens=0.0)
    half = kind == "tauleap" and not huge and rs.chance(0.12)
    if half:
        # whole and exactly-half amounts handed over untouched ('none'): whole molecules move, the halves stay
        p.update(integer_state="half", state="explicit")
    long_run = rf.chance(0.3) and not huge
    steps = (100, 600) if long_run else (10, 80)
    if tier == "thorough" and rf.chance(0.1):
        steps = (1000, 5000)
    giant = kind == "tauleap" and not huge and not half and rs.chance(0.05)
    dtail = kind == "euler" and rs.chance(0.08)
    biggrid = kind == "euler" and rs.chance(0.06)
    manysp = (not huge) and (not half) and index % 40 == 13
    if manysp:
        # more than 32 species (33-70), with reactions among the high indices
        entry = C.scale_entry(rs.sub("scale"), ru, rk, kind, "species", steps=(20, 60))
        giant = dtail = biggrid = False
    elif biggrid:
        # a few hundred cells (a blocked or tiled sweep over the grid has seams somewhere): diffusion with gradients everywhere
        dims = rs.choice([[17, 16, 1], [20, 15, 1], [9, 8, 5], [300, 1, 1], [7, 7, 7], [33, 9, 1],
                          [5, 3, 3], [3, 4, 3], [7, 4, 3], [4, 3, 5], [6, 5, 4], [3, 5, 4]])
        nc_ = dims[0] * dims[1] * dims[2]
        vol = (rs.loguniform(0.5, 2.0) * 1e-6) ** 3
        h_ = vol ** (1.0 / 3.0)
        Dd = rs.loguniform(0.05, 1.0) * 1e-12
        st_ = [rs.uniform(0.0, 100.0) for _ in range(nc_)] + [float(rs.randint(0, 50)) for _ in range(nc_)]
        spec_t = {"envs": ["cyt"], "species": [{"label": "A", "D": [Dd], "dens": [0.0], "chst": [0]},
                                               {"label": "B", "D": [Dd * rs.uniform(0.2, 1.0)], "dens": [0.0], "chst": [0]}],
                  "reactions": [{"label": None, "sub": {"A": 1}, "prod": {"B": 1}, "kf": [rs.loguniform(0.01, 0.2) * Dd / (h_ * h_)], "kr": [0.0]}],
                  "space": {"type": "grid", "w": dims[0], "h": dims[1], "d": dims[2],
                            "bc": [rs.choice(["reflecting", "periodical"]) for _ in range(3)], "cell_env": [0] * nc_, "vol": vol},
                  "state": st_, "chem": None}
        for ax in range(3):
            if dims[ax] == 1:
                spec_t["space"]["bc"][ax] = "reflecting"
        dtt = rs.uniform(0.02, 0.12) * h_ * h_ / Dd
        nst = rs.randint(5, 20)
        sp_t = {"kind": "euler", "dt": dtt, "t_sample": [0.0, (nst - 0.5) * dtt], "t_max": None, "policy": "on_iteration",
                "interval": dtt, "seed": rk.bits(31), "isp": "auto", "ongrid": False, "steps": nst}
        entry = C.rerender_plain({"phys": {"spec": spec_t, "sp": sp_t, "kind": "euler"}})
    elif dtail:
        # diffusion alone from a point source of a few molecules along a chain of empty cells, written and run in a units
        # system whose quantity unit is far above one molecule: the tail holds amounts like 1e-40 units, which are amounts
        nc_ = rs.randint(8, 20)
        vol = (rs.loguniform(0.5, 2.0) * 1e-6) ** 3
        h_ = vol ** (1.0 / 3.0)
        Dd = rs.loguniform(0.05, 1.0) * 1e-12
        cour = rs.uniform(0.02, 0.2)
        st_ = [0.0] * nc_
        st_[rs.randint(0, nc_ - 1)] = rs.uniform(1.0, 20.0)
        spec_t = {"envs": ["cyt"], "species": [{"label": "A", "D": [Dd], "dens": [0.0], "chst": [0]}], "reactions": [],
                  "space": {"type": "grid", "w": nc_, "h": 1, "d": 1, "bc": [rs.choice(["reflecting", "periodical"]), "reflecting", "reflecting"],
                            "cell_env": [0] * nc_, "vol": vol},
                  "state": st_, "chem": None}
        dtt = cour * h_ * h_ / Dd
        nst = rs.randint(20, 60)
        sp_t = {"kind": "euler", "dt": dtt, "t_sample": [0.0, (nst - 0.5) * dtt], "t_max": None, "policy": "on_iteration",
                "interval": dtt, "seed": rk.bits(31), "isp": "auto", "ongrid": False, "steps": nst}
        entry = C.rerender_plain({"phys": {"spec": spec_t, "sp": sp_t, "kind": "euler"}})
        us_t = {"space": "µm", "time": "s", "quantity": rs.choice(["mol", "kmol", "mmol", "µmol"])}
        entry["script"] = gen_render(sp_t, us_t)
        entry["phys"]["us"] = us_t
        entry["phys"]["eu"] = dict(us_t)
    elif giant:
        # one channel A -> n B firing between 2^31/n and 2^31 times - or, half of the time, more than 2^31 times - in a single
        # step of a single cell (billions of molecules of A): counts and per-step firing numbers are exact in doubles,
        # n*firings (and the firing number itself) leaves the 32-bit range
        entry = C.giant_entry(rs, rk)
    else:
        entry = C.make_script_entry(rs, ru, rk, kind, p,
                                    {"steps": steps, "policy": rk.choice(["on_iteration", "on_iteration", "on_interval", "on_t_sample"]),
                                     "nreq": (3, 12), "p_explicit_tmax": 0.7, "isp": "none" if (huge or half) else None,
                                     "tauleap_overshoot": 0.15, "tauleap_fractional_none": 1.0 if half else 0.5},
                                    rich=rs.chance(0.4) and not huge and not half)
    sp = entry["phys"]["sp"]
    nrep = rf.wchoice([(1, 3), (2, 2)])
    scripts = [entry]
    if nrep == 2 and rf.chance(0.6) and not giant and not dtail and not biggrid and not manysp:
        # second set-up on the same engine object with a sibling model: same species, same number of reactions, other
        # stoichiometry and constants (what a front-end cache keyed too coarsely would confuse)
        from .. import gen
        sib = gen.sibling_spec(rs.sub("sib"), entry["phys"]["spec"], p)
        scripts.append(C.make_script_entry(rs.sub("sib2"), ru.sub("sib"), rk.sub("sib"), kind, None,
                                           {"steps": steps, "policy": "on_iteration", "p_explicit_tmax": 0.7},
                                           rich=False, spec=sib))
    eps = []
    for rep in range(nrep):
        sidx = 1 if (rep == 1 and len(scripts) > 1) else 0
        sp = scripts[sidx]["phys"]["sp"]
        cap = (min(60 * sp["steps"], 60000) + 500) if kind == "gillespie" else (C.fixed_steps_needed(sp) + 5)
        plan = []
        for _ in range(rf.randint(1, 4)):
            c = rf.wchoice([("iterate", 1), ("iterate_n", 3), ("run", 2)])
            if c == "iterate":
                plan.append(["iterate"])
            elif c == "iterate_n":
                plan.append(["iterate_n", rf.randint(1, 60)])
            else:
                ms = rf.randint(1, 30)
                vals, _ = C.random_clock_plan(rf, ms, 40)
                plan.append(["run", ms, vals])
        ops = [["poison", rf.choice([0, 0xff])], ["setup"], ["drive", plan, cap], ["output"]]
        if rep == nrep - 1 or rf.chance(0.5):
            ops.append(["finalize"])
            spg = scripts[sidx]["phys"]["spec"]["space"]
            if rep == nrep - 1 and spg["type"] == "grid" and all(b == "reflecting" for b in spg["bc"]) and \
                    spg["w"] * spg["h"] * spg["d"] <= 64 and kind != "gillespie" and rf.chance(0.5):
                # the same script on a coarse-grained copy of the system (identity map, or some cells dropped): the totals
                # over what the trajectory reports are conserved just the same
                ncg = spg["w"] * spg["h"] * spg["d"]
                cg = list(range(ncg))
                if ncg >= 2 and rf.chance(0.5):
                    drop = rf.randint(0, ncg - 1)
                    cg = [(-1 if i == drop else (i if i < drop else i - 1)) for i in range(ncg)]
                ops.append(["simulate_cg", {"slices": [5, 3], "ms": 1000}, cg])
        eps.append({"obj": 0, "kind": kind, "via": rf.choice(["LibRDEngine", "factory"]), "script": sidx, "ops": ops})
    return {"format": 1, "property": ID, "seed": seed, "tier": tier, "index": index, "build": "plain",
            "scripts": scripts, "lifetimes": [{"pyseed": rf.bits(30), "episodes": eps}],
            "meta": {"kind": kind, "sibling": len(scripts) > 1, "huge": huge, "half": half, "giant": giant, "dtail": dtail, "biggrid": biggrid, "manysp": manysp}}


def check(case, results):
    viol = []
    kind = case["meta"]["kind"]
    stats = {"cases": 1, "lifetimes": 1, "kinds": {kind: 1}}
    res = results[0]
    nontrivial = 0
    if case["meta"].get("sibling"):
        stats["sibling_second_setup"] = 1
    if case["meta"].get("huge"):
        stats["counts_above_2^24"] = 1
    if case["meta"].get("giant"):
        stats["firings_per_step_above_2^31/n"] = 1
    if case["meta"].get("manysp"):
        stats["more_than_32_species"] = 1
    if case["meta"].get("biggrid"):
        stats["grid_of_several_hundred_cells"] = 1
    if case["meta"].get("dtail"):
        stats["diffusion_tail_in_mol_units"] = 1
    if case["meta"].get("half"):
        stats["half_integer_state_untouched"] = 1
    for ei, ep in enumerate(case["lifetimes"][0]["episodes"]):
        phys = case["scripts"][ep["script"]]["phys"]
        m = Model(phys["spec"])
        h = traj.extract(case, 0, ei, res, m.ns, m.nc)
        v = []
        for ev in h.exc:
            v.append({"oracle": "C02.no-exception", "detail": ev["exc"] + "\n" + ev.get("tb", ""), "op": ev["i"]})
        before = stats.get("conservation_series", 0)
        traj.conservation_oracle(h, m, phys, v, stats, kind, "C02")
        # the trajectory handed to the user is the engine's records in the script's units (exactly so in molecules)
        traj.output_oracle(h, lambda apos: None, phys, m.ns, m.nc, v, stats, "C02")
        if not v and h.outputs and kind != "euler" and phys["us"]["quantity"] == "molecule":
            o_ = h.outputs[-1][1]
            if o_["data"] != o_["raw_x"]:
                v.append({"oracle": "C02.conserved", "detail": "trajectory.data differs from the engine's integer records "
                          "although the script's quantity unit is the molecule"})
        if h.outputs:
            n = h.outputs[-1][1]["n"]
            stats["samples_checked"] = stats.get("samples_checked", 0) + n
            if n >= 3 and stats.get("conservation_series", 0) > before:
                nontrivial = 1
            if kind != "euler" and n:
                rx = np.frombuffer(h.outputs[-1][1]["raw_x"], dtype=np.float64)
                if rx.size and rx.min() < 0:
                    stats["tauleap_negative_entry_seen"] = stats.get("tauleap_negative_entry_seen", 0) + 1
        for ev in res.events:
            if ev["e"] == ei and ev["op"] == "simulate_cg" and "exc" not in ev and not ev.get("skipped"):
                ncs = ev["nsamples"]
                dcg = np.frombuffer(ev["data"], dtype=np.float64)
                if ncs >= 2 and dcg.size == ncs * m.ns * m.nc and np.all(np.isfinite(dcg)):
                    totc = dcg.reshape(ncs, m.ns, m.nc).sum(axis=2)
                    for cvec in m.conservation_vectors():
                        ser = totc @ np.array(cvec, dtype=float)
                        scl = float((np.abs(dcg.reshape(ncs, m.ns, m.nc)).sum(axis=2) @ np.abs(np.array(cvec, dtype=float))).max())
                        stats["conservation_series_coarse_grained"] = stats.get("conservation_series_coarse_grained", 0) + 1
                        if float(np.abs(ser - ser[0]).max()) > 1e-9 * scl + 1e-300:
                            v.append({"oracle": "C02.conserved", "detail": "coarse-grained run (map %s): combination %s drifts by %r "
                                      "(scale %r) over %d samples" % (ep["ops"][ev["i"]][2], cvec, float(np.abs(ser - ser[0]).max()), scl, ncs)})
                            break
            if ev["e"] == ei and ev["op"] == "drive" and "exc" not in ev:
                stats["engine_steps"] = stats.get("engine_steps", 0) + ev["nloop"]
        for x in v:
            x.update({"class": "violation", "lifetime": 0, "episode": ei})
        viol.extend(v)
    vecs = m.conservation_vectors()
    stats["vectors"] = len(vecs)
    stats["nontrivial_vectors"] = sum(1 for c in vecs if sum(1 for a in c if a) > 1)
    sp = phys["spec"]["space"]
    if sp["type"] == "grid":
        for L, b in zip((sp["w"], sp["h"], sp["d"]), sp["bc"]):
            if b == "periodical" and L == 2:
                stats["periodic_axis_len_2"] = 1
    else:
        vols = [n["vol"] for n in sp["nodes"]]
        if max(vols) / min(vols) > 100:
            stats["volume_ratio_gt_100"] = 1
    if any(0.0 in s["D"] for s in phys["spec"]["species"]) and any(any(s["D"]) for s in phys["spec"]["species"]):
        stats["zero_diffusivity_wall"] = 1
    stats["nontrivial"] = nontrivial
    return viol, stats


def describe(case):
    return {"kind": case["meta"]["kind"], "reactions": [{"sub": r["sub"], "prod": r["prod"]} for r in
                                                       case["scripts"][0]["phys"]["spec"]["reactions"]],
            "vectors": Model(case["scripts"][0]["phys"]["spec"]).conservation_vectors(),
            "space": {k: v for k, v in case["scripts"][0]["phys"]["spec"]["space"].items() if k in ("type", "w", "h", "d", "bc")},
            "ops": [[o if len(str(o)) < 200 else [o[0], "..."] for o in ep["ops"]] for ep in case["lifetimes"][0]["episodes"]]}


RULE = ("case = one random system (templated + random reactions so that non-trivial integer conservation vectors exist; "
        "pure-diffusion systems; zero-diffusivity walls; periodic/reflecting grids, graphs with heterogeneous volumes; optional "
        "chemostat maps) run on a random engine for 10-600 (thorough: up to 5000) steps under a random batched schedule "
        "(iterate / iterate_n / run with virtual clock), 1-2 set-ups per engine object; every vector of the integer left null "
        "space (Fraction Gaussian elimination) that touches no chemostated species is checked on every recorded sample; "
        "non-trivial = at least one vector checked over >= 3 samples")
ASSUMPTIONS = ["conservation is evaluated on the engine's own records (molecule counts for the stochastic engines), so that "
               "'exactly' means bitwise on integers held in doubles"]
