"""C03 -- chemostated entries never change; everything else ignores the flag.

Chemostat maps are the varied dimension (per-entry random subsets on every species index, per-environment flags,
global flags). Oracles: bit-constancy of flagged entries in every observed state and every record of every engine;
Euler refinement with the mask (flagged entries still feed reactions and diffusion); hand-applied reactions between
set-ups; co-observers compute_dspeciesdt(apply_chemostats=True) and make_dxdtf."""
import copy

import numpy as np

from .. import si, traj
from ..models import Model
from ..prng import Stream
from . import common as C
from .c01 import check_kinetics, gen_us

ID = "C03"
LEVEL = "exploration"

SPEC_P = dict(n_species=(2, 4), n_reactions=(0, 3), max_order=3, max_cells=12, graph_nodes=(1, 6), graph_edges=(0, 8),
              n_mol=(5.0, 300.0), templates=0.4, chem="mixed", p_zero_D=0.1)
SMALL_P = dict(SPEC_P, max_cells=4, graph_nodes=(1, 4), graph_edges=(0, 5), n_species=(2, 3))


def n_cases(tier):
    return 2400 if tier == "quick" else 60000


def timeout(tier):
    return 20.0 if tier == "quick" else 120.0


def _force_chem(rs, spec):
    """make sure some entry is flagged (this profile is about flags)"""
    m = Model(spec)
    if m.chem.any():
        return
    mode = rs.wchoice([("entry", 3), ("species", 1)])
    if mode == "entry":
        n = m.ns * m.nc
        ch = [0] * n
        for _ in range(rs.randint(1, max(1, n // 3))):
            ch[rs.randint(0, n - 1)] = 1
        spec["chem"] = ch
    else:
        s = rs.choice(spec["species"])
        s["chst"] = [1] * len(spec["envs"])


def _flagged_reactant(rs, spec):
    """with some probability add a reaction that consumes two or three molecules of a species that is flagged somewhere:
    the flag exempts the entry from the change, not from the (combinatorial) propensity"""
    m = Model(spec)
    fl = [s for s in range(m.ns) if m.chem[s].any()]
    if not fl or len(spec["reactions"]) >= 4:
        return
    a = spec["species"][rs.choice(fl)]["label"]
    b = rs.choice(spec["species"])["label"]
    n = rs.choice([2, 2, 3])
    nenv = len(spec["envs"])
    ctyp = max(1.0, float(np.abs(m.x0).mean())) / float(m.V.mean())
    k = rs.loguniform(0.05, 1.0) * ctyp ** (1 - n)
    prod = {b: 1} if b != a else {}
    spec["reactions"].append({"label": None, "sub": {a: n}, "prod": prod, "kf": [k] * nenv, "kr": [0.0] * nenv})


def generate(seed, tier, index):
    base = Stream(ID, seed, tier, index)
    rs, ru, rk, rf = base.sub("spec"), base.sub("units"), base.sub("script"), base.sub("sched")
    kind = rs.wchoice([("euler", 4), ("tauleap", 3), ("gillespie", 3)])
    coobs = rf.chance(0.25)
    from .. import gen
    spec = gen.gen_spec(rs, SMALL_P if coobs else SPEC_P)
    _force_chem(rs, spec)
    if rs.chance(0.35):
        _flagged_reactant(rs, spec)
    reservoir = kind != "euler" and rf.chance(0.08)
    if reservoir:
        # focused workload: a small flagged reservoir F consumed n at a time (n F -> P). The flag exempts F from the change,
        # not from the combinatorial propensity F(F-1)..: at small F the difference to F^n is large
        n = rs.choice([2, 2, 3])
        nc_ = rs.choice([1, 2])
        vol = (rs.loguniform(0.5, 2.0) * 1e-6) ** 3
        F0 = float(rs.randint(n, n + 4))
        spec = {"envs": ["cyt"],
                "species": [{"label": "F", "D": [0.0], "dens": [0.0], "chst": [1]},
                            {"label": "P", "D": [rs.loguniform(0.02, 1.0) * 1e-12 if nc_ > 1 else 0.0], "dens": [0.0], "chst": [0]}],
                "reactions": [{"label": None, "sub": {"F": n}, "prod": {"P": 1},
                               "kf": [rs.loguniform(0.2, 2.0) * (F0 / vol) ** (1 - n)], "kr": [0.0]}],
                "space": {"type": "grid", "w": nc_, "h": 1, "d": 1, "bc": ["reflecting"] * 3, "cell_env": [0] * nc_, "vol": vol},
                "state": [F0] * nc_ + [0.0] * nc_, "chem": None}
        coobs = False
    entry = C.make_script_entry(rs, ru, rk, kind, None, {"steps": (150, 300) if reservoir else (3, 40), "p_ongrid": 0.05,
                                                         "p_zero_tmax": 0.0 if reservoir else 0.04, "p_explicit_tmax": 1.0 if reservoir else 0.4,
                                                         "courant": (0.05, 0.3),
                                                         "isp": rk.choice(["auto", "auto", "redist", "Poisson", "none"]) if kind != "euler" else "auto",
                                                         "tauleap_fractional_none": 1.0},
                                rich=rs.chance(0.5), spec=spec)
    spec = entry["phys"]["spec"]
    sp = entry["phys"]["sp"]
    if kind != "euler":
        # pooled statistics need independent random streams: no shared boundary seeds (0, 1, 2^31-1, ...) here
        entry["script"]["rng_seed"] = rf.bits(31)
        sp["seed"] = entry["script"]["rng_seed"]
    m = Model(spec)
    eps = []
    applied = []
    nrep = 1 if reservoir else rf.wchoice([(1, 2), (2, 2)])
    scripts = [entry]
    if nrep == 2 and kind != "euler":
        # the second set-up runs with another seed (an identical stochastic run would add no information)
        e2 = copy.deepcopy(entry)
        e2["script"]["rng_seed"] = rf.bits(31)
        e2["phys"]["sp"]["seed"] = e2["script"]["rng_seed"]
        scripts.append(e2)
    x = m.x0.copy()
    warm = False
    if not reservoir and rf.chance(0.15):
        # earlier in the same process, on the same engine object: the same model under the complementary chemostat map
        # (what is flagged now was evolving then, and the other way round), iterated and mostly left unfinalized
        w = copy.deepcopy(entry)
        inv = [int(1 - int(c)) for c in m.chem.ravel()]
        w["phys"]["spec"]["chem"] = inv
        w["system"]["chemostats"] = inv
        scripts.append(w)
        wops = [["poison", rf.choice([0, 0x55, 0xff])], ["setup"], ["iterate_n", rf.randint(1, 8)]]
        if rf.chance(0.35):
            wops.append(["finalize"])
        eps.append({"obj": 0, "kind": kind, "via": "LibRDEngine", "script": len(scripts) - 1, "ops": wops, "warm": True})
        warm = True
    for rep in range(nrep):
        ops = []
        if rep > 0 and spec["reactions"] and rf.chance(0.8):
            # hand-applied reaction between the set-ups
            for _ in range(rf.randint(1, 2)):
                ri = rf.randint(0, len(spec["reactions"]) - 1)
                pos = rf.randint(0, m.nc - 1)
                sub = m.sub[2 * ri]
                prod = m.sub[2 * ri + 1]
                fwd = rf.chance(0.7)
                need = sub if fwd else prod
                lim = min([x[s, pos] / need[s] for s in range(m.ns) if need[s] > 0] + [4.0])
                if lim <= 0:
                    continue
                if kind == "euler" and rf.chance(0.5):
                    n = float(rf.uniform(0.1, 0.9) * lim)
                else:
                    n = int(lim)
                    if n == 0:
                        continue
                    n = rf.randint(1, n)
                if not fwd:
                    n = -n
                net = m.net[2 * ri]
                for s in range(m.ns):
                    if m.free[s, pos]:
                        x[s, pos] += n * net[s]
                ops.append(["apply_reaction", ri, pos, n])
                applied.append([rep, ri, pos, n])
        obs = C.observed_ops(rf, sp, kind, samples=True, readonly=False, post=True, poison=rf.choice([0, 0xff]))
        if coobs and rep == 0:
            entries = [[rf.randint(0, m.ns - 1), rf.randint(0, m.nc - 1)] for _ in range(rf.randint(1, 4))]
            # prefer flagged entries and entries of the same cell as a flagged entry of another species
            flagged = [[int(a), int(b)] for a, b in np.argwhere(m.chem == 1)]
            if flagged:
                f = rf.choice(flagged)
                entries.append(f)
                entries.append([rf.randint(0, m.ns - 1), f[1]])
            k = ["kinetics", entries, True, gen_us(rf)]
            if m.nc == 1 and rf.chance(0.7):
                k = ["kinetics", "all", True, gen_us(rf), "dxdtf"]
            elif m.ns * m.nc <= 9 and rf.chance(0.6):
                k = ["kinetics", "all", True, gen_us(rf)]      # the whole-state function on a multi-cell system
            i_drive = [i for i, o in enumerate(obs) if o[0] == "drive"][0]
            obs.insert(i_drive + 1, k)
            if rf.chance(0.5):
                # the map of the caller's live system changes through RDSystem's own methods after the kinetics functions
                # were used on it; they follow the new map (and a copy's map is the copy's business)
                act = rf.choice(["reset", "default", "set", "set", "copy_set", "assign_set"])
                cs, ci = rf.randint(0, m.ns - 1), rf.randint(0, m.nc - 1)
                val = rf.choice([True, 1, 0, False, 3]) if act in ("reset", "default", "set") else int(not m.chem[cs, ci])
                k2 = ["kinetics", "all" if m.ns * m.nc <= 9 else entries + [[cs, ci]], True, gen_us(rf)]
                if m.nc == 1:
                    k2 = ["kinetics", "all", True, gen_us(rf), "dxdtf"]
                obs += [["chem_api", act, cs, ci, val], k2, ["drop_system"]]
        ops += obs
        if rep == nrep - 1 and not coobs and not reservoir and rf.chance(0.12):
            # the caller edits the chemostat map of ITS system after the script was built from it, then sets the script up
            # again: the script holds its own copy of the system, the run is that of the map it was built with
            cs, ci = rf.randint(0, m.ns - 1), rf.randint(0, m.nc - 1)
            ops += [["chem_api", "set_after_script", cs, ci, int(not m.chem[cs, ci])]]
            ops += C.observed_ops(rf, sp, kind, samples=False, readonly=False, post=False)
        if rep == nrep - 1 or rf.chance(0.5):
            ops.append(["finalize"])
        nmain = len(scripts) - (1 if warm else 0)
        eps.append({"obj": 0, "kind": kind, "via": "LibRDEngine" if warm else rf.choice(["LibRDEngine", "factory"]),
                    "script": min(rep, nmain - 1), "ops": ops})
    return {"format": 1, "property": ID, "seed": seed, "tier": tier, "index": index, "build": "plain",
            "scripts": scripts, "lifetimes": [{"pyseed": rf.bits(30), "episodes": eps}],
            "meta": {"kind": kind, "coobs": coobs, "applied": applied, "reservoir": reservoir, "warm": warm}}


def check(case, results):
    viol = []
    kind = case["meta"]["kind"]
    stats = {"cases": 1, "lifetimes": 1, "kinds": {kind: 1}}
    res = results[0]
    entry = case["scripts"][0]
    phys = entry["phys"]
    spec = copy.deepcopy(phys["spec"])
    m = Model(spec)
    x_expected = m.x0.copy()
    nontrivial = 0
    for ei, ep in enumerate(case["lifetimes"][0]["episodes"]):
        v = []
        if ep.get("warm"):
            stats["prehistory_complementary_chemostat_map"] = 1
            continue
        # hand-applied reactions of this episode
        for ev in res.events:
            if ev["e"] == ei and ev["op"] == "apply_reaction" and "exc" not in ev and not ev.get("skipped"):
                op = ep["ops"][ev["i"]]
                ri, pos, n = op[1], op[2], op[3]
                unit = ev["state_units"].strip()
                fq = si.QUANTITY.get(unit)
                if fq is None:
                    v.append({"oracle": "harness", "class": "harness", "detail": "state units " + unit})
                    continue
                before = np.frombuffer(ev["before"], dtype=np.float64).reshape(m.ns, m.nc) * fq
                after = np.frombuffer(ev["state"], dtype=np.float64).reshape(m.ns, m.nc) * fq
                want = before.copy()
                for s in range(m.ns):
                    if m.free[s, pos]:
                        want[s, pos] += n * m.net[2 * ri][s]
                tol = 1e-12 * (np.abs(before) + abs(n) * np.abs(m.net[2 * ri])[:, None]) + 1e-300
                stats["apply_reaction_checked"] = stats.get("apply_reaction_checked", 0) + 1
                if np.any(np.abs(after - want) > tol):
                    d = np.argwhere(np.abs(after - want) > tol)[0]
                    v.append({"oracle": "C03.apply-reaction", "detail":
                              "apply_reaction(%d, position=%d, n=%r): entry (species %d, cell %d) went %r -> %r molecules, "
                              "expected %r (flagged=%d)" % (ri, pos, n, d[0], d[1], before[d[0], d[1]], after[d[0], d[1]],
                                                            want[d[0], d[1]], int(m.chem[d[0], d[1]]))})
                for s in range(m.ns):
                    if m.free[s, pos]:
                        x_expected[s, pos] += n * m.net[2 * ri][s]
        spec["state"] = [float(a) for a in x_expected.ravel()]
        m = Model(spec)
        h = traj.extract(case, 0, ei, res, m.ns, m.nc)
        if h.problems:
            viol.append({"class": "harness", "oracle": "harness", "detail": "; ".join(h.problems)})
            continue
        for ev in h.exc:
            v.append({"oracle": "C03.no-exception", "detail": ev["exc"] + "\n" + ev.get("tb", ""), "op": ev["i"]})
        if h.setup is not None and h.obs0 is not None:
            traj.chemostat_oracle(h, m, v, stats, "C03")
            fq = si.factor(phys["eu"], si.DIM_QUANTITY)
            if kind == "euler":
                X0 = h.obs0.x * fq
                if np.any(np.abs(X0 - m.x0) > 1e-11 * np.abs(m.x0) + 1e-300):
                    d = np.argwhere(np.abs(X0 - m.x0) > 1e-11 * np.abs(m.x0) + 1e-300)[0]
                    v.append({"oracle": "C03.initial-state", "detail": "entry (species %d, cell %d) starts at %r molecules, "
                              "expected %r" % (d[0], d[1], X0[d[0], d[1]], m.x0[d[0], d[1]])})
                else:
                    traj.euler_oracle(h, m, phys, v, stats, "C03")
            elif kind == "tauleap":
                # unflagged entries follow the law also next to flagged ones: exact support oracle per step, and the
                # drift-direction score statistic pooled over the whole run (global_check)
                from .c07 import analyse_tauleap
                seq = [h.obs0] + [o for (kd, ret, o) in h.actions if kd == "iterate"]
                keep = [seq[0]]
                for o in seq[1:]:
                    if o.t != keep[-1].t:
                        keep.append(o)
                if len(keep) >= 2:
                    ft = si.factor(phys["eu"], si.DIM_TIME)
                    acc = {"steps": 0, "steps_from_negative_state_excluded": 0, "negative_entry_after_step": 0,
                           "sc_r_num": 0.0, "sc_r_den": 0.0, "sc_d_num": 0.0, "sc_d_den": 0.0, "sc_m_num": 0.0, "sc_m_den": 0.0,
                           "fn_mean_num": [0.0, 0.0], "fn_mean_den": [0.0, 0.0], "fn_var_num": [0.0, 0.0], "fn_var_den": [0.0, 0.0]}
                    for k_ in ("tl_mean_num", "tl_mean_den", "tl_var_num", "tl_var_den"):
                        acc[k_] = np.zeros((m.ns, m.nc))
                    vv = []
                    analyse_tauleap(m, np.array([o.t for o in keep]) * ft, np.array([o.x for o in keep]), acc, vv, {})
                    for x_ in vv:
                        x_["oracle"] = x_["oracle"].replace("C07.", "C03.")
                    v.extend(vv)
                    stats["tauleap_steps_checked"] = stats.get("tauleap_steps_checked", 0) + acc["steps"]
                    gg = stats.setdefault("g", {"sc_m_num": 0.0, "sc_m_den": 0.0})
                    gg["sc_m_num"] += acc["sc_m_num"]
                    gg["sc_m_den"] += acc["sc_m_den"]
            elif kind == "gillespie":
                # every observed step must be the *masked* effect of an event that is possible in the state before it:
                # a flagged entry is exempt from the change, its partner is not (source and sink for its neighbours)
                from .c07 import EventTable
                tab = EventTable(m)
                prev = h.obs0
                for ai, (kd, ret, o) in enumerate(h.actions):
                    if kd == "iterate" and o.t != prev.t:
                        d = o.x - prev.x
                        eff = frozenset(((int(a), int(b)), int(d[a, b])) for a, b in np.argwhere(d != 0))
                        g = tab.gid.get(eff)
                        stats["gillespie_steps_checked"] = stats.get("gillespie_steps_checked", 0) + 1
                        ok = False
                        if g is not None:
                            ag = np.bincount(tab.group_of_event, weights=tab.propensities(prev.x), minlength=tab.ngroups)
                            ok = ag[g] > 0
                        if ok:
                            # waiting time x reference total propensity (flagged entries included): pooled over the run
                            a0_ = float(ag.sum())
                            gg = stats.setdefault("g", {})
                            gg["w_sum"] = gg.get("w_sum", 0.0) + (o.t - prev.t) * si.factor(phys["eu"], si.DIM_TIME) * a0_
                            gg["w_n"] = gg.get("w_n", 0) + 1
                        if not ok:
                            v.append({"oracle": "C03.masked-step", "action": ai,
                                      "detail": "Gillespie step %d changes the state by %s: not the chemostat-masked effect of any "
                                                "event possible in the state before it" % (ai, sorted(eff))})
                            break
                    prev = o
            mk = m
            for ev in sorted((e_ for e_ in res.events if e_["e"] == ei), key=lambda e_: e_["i"]):
                if ev["op"] == "chem_api" and "exc" not in ev and not ev.get("skipped") and \
                        ep["ops"][ev["i"]][1] == "set_after_script":
                    # the system's own map follows the edit; the script built before keeps its copy (checked by the oracles
                    # of the set-up that follows, against the unchanged model)
                    o_ = ep["ops"][ev["i"]]
                    flat_ = [int(c) for c in mk.chem.ravel()]
                    flat_[o_[2] * mk.nc + o_[3]] = int(bool(o_[4]))
                    stats["system_edited_after_script_was_built"] = 1
                    if [int(bool(c)) for c in ev["chem"]] != flat_:
                        v.append({"oracle": "C03.chemostat-api", "detail": "after %s the system's map is %s, expected %s" % (
                            o_[1:], ev["chem"], flat_)})
                    continue
                if ev["op"] == "chem_api" and "exc" not in ev and not ev.get("skipped"):
                    o_ = ep["ops"][ev["i"]]
                    spec2 = copy.deepcopy(mk.spec)
                    flat = [int(c) for c in mk.chem.ravel()]
                    if o_[1] == "reset":
                        flat = [0] * len(flat)
                    elif o_[1] == "default":
                        spec2["chem"] = None
                        flat = [int(c) for c in Model(spec2).chem.ravel()]
                    elif o_[1] == "set":
                        flat[o_[2] * mk.nc + o_[3]] = int(bool(o_[4]))
                    spec2["chem"] = flat
                    mk = Model(spec2)
                    stats["chemostat_map_changed_on_live_system"] = 1
                    if [int(bool(c)) for c in ev["chem"]] != flat:
                        v.append({"oracle": "C03.chemostat-api", "detail": "after %s the map is %s, expected %s" % (
                            o_[1:], ev["chem"], flat)})
                if ev["op"] == "kinetics" and "exc" not in ev and not ev.get("skipped"):
                    check_kinetics(ev, ep["ops"][ev["i"]], mk, phys, v, stats, "C03", masked=True)
            nst = sum(1 for a in h.actions if a[0] == "iterate")
            stats["engine_steps"] = stats.get("engine_steps", 0) + nst
            if nst >= 2 and m.chem.any():
                nontrivial = 1
            if m.chem.any() and not m.chem[0].any():
                stats["flag_only_on_nonfirst_species"] = 1
        for x in v:
            x.setdefault("class", "violation")
            x.update({"lifetime": 0, "episode": ei})
        viol.extend(v)
    stats["nontrivial"] = nontrivial
    return viol, stats


def global_check(total):
    import math
    out, info = [], {}
    g = total.get("g") or {}
    if g.get("w_n", 0) >= 5000:
        z = (g["w_sum"] / g["w_n"] - 1.0) * math.sqrt(g["w_n"])
        info["pooled_gillespie_wait_z"] = z
        info["pooled_gillespie_steps"] = g["w_n"]
        if abs(z) > 6.5:
            out.append({"class": "violation", "oracle": "C03.pooled-waiting-time",
                        "detail": "Gillespie runs with chemostat maps: pooled mean of dt*a0_ref = %.5f over %d steps (z=%.1f): "
                                  "flagged entries are not exempt from the propensity" % (g["w_sum"] / g["w_n"], g["w_n"], z)})
    if g.get("sc_m_den", 0) > 100:
        z = g["sc_m_num"] / math.sqrt(g["sc_m_den"])
        info["pooled_tauleap_drift_direction_z"] = z
        if abs(z) > 6.5:
            out.append({"class": "violation", "oracle": "C03.pooled-tauleap-drift",
                        "detail": "tau-leap runs with chemostat maps: increments of unflagged entries projected on the direction of "
                                  "their expected change, pooled over all cases: z=%.1f (unflagged entries do not evolve as the rate "
                                  "law prescribes)" % z})
    return out, info


def describe(case):
    m = Model(case["scripts"][0]["phys"]["spec"])
    return {"kind": case["meta"]["kind"], "chemostat_map": m.chem.tolist(), "applied": case["meta"]["applied"],
            "ops": [[o[0] for o in ep["ops"]] for ep in case["lifetimes"][0]["episodes"]]}


RULE = ("case = one random system with at least one chemostated entry (per-entry random subsets on every species index / "
        "per-environment / global flags), run on a random engine as 1-2 observed episodes on one engine object, with "
        "hand-applied reactions between the set-ups and, in a quarter of the cases, kinetics co-observers with "
        "apply_chemostats=True at flagged entries and their cell mates; non-trivial = at least 2 engine steps with a flagged entry")
ASSUMPTIONS = ["flagged entries are compared bitwise with the state observed right after set-up",
               "for the stochastic engines the 'unflagged entries evolve per law' clause is decided by C07's statistics; here "
               "the Euler refinement with the mask decides it for the deterministic engine"]
