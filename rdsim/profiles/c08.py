"""C08 -- a trajectory is a pure function of script, engine kind and seed.

Reference lifetime: the script S driven by iterate() only. Variant lifetimes: the same S under other driver
schedules (iterate / iterate_n / run with virtual-clock faults / the library's simulate_script loop), other engine
objects, arbitrary process pre-history, observers on/off. Oracle: bit-identical t and data."""
import random

from ..prng import Stream
from . import common as C

ID = "C08"
LEVEL = "exploration"
NONDET_IS_VIOLATION = True   # "bit-identical no matter how often it is repeated"

PRE_P = dict(n_species=(1, 3), n_reactions=(0, 2), max_cells=6, graph_nodes=(1, 4), graph_edges=(0, 4),
             n_mol=(1.0, 50.0))
MAIN_P = dict(n_species=(1, 4), n_reactions=(0, 3), max_cells=12, n_mol=(1.0, 200.0))

CAP = 3000


def n_cases(tier):
    return 1200 if tier == "quick" else 40000


def timeout(tier):
    return 20.0 if tier == "quick" else 120.0


def _schedule(rf, steps, stats_kinds):
    """a cyclic drive plan mixing loop ops, read-only ops and observers"""
    plan = []
    n = rf.randint(1, 6)
    for _ in range(n):
        c = rf.wchoice([("iterate", 3), ("iterate_n", 3), ("run", 4)])
        if c == "iterate":
            plan.append(["iterate"])
        elif c == "iterate_n":
            k = rf.wchoice([(0, 1), (1, 2), (rf.randint(2, 9), 4), (rf.randint(10, 200), 1), (10 ** 6, 1)])
            plan.append(["iterate_n", k])
        else:
            ms = rf.wchoice([(0, 1), (1, 2), (rf.randint(2, 50), 3), (1000, 3)])
            vals, kinds = C.random_clock_plan(rf, ms, rf.randint(1, max(2, steps)))
            stats_kinds.update(kinds)
            plan.append(["run", ms, vals])
        if rf.chance(0.3):
            plan.append([rf.choice(["progress", "is_complete", "observe", "output"])])
    if not any(o[0] == "iterate" or (o[0] == "iterate_n" and o[1] >= 1) or o[0] == "run" for o in plan):
        plan.append(["iterate"])   # a cyclic plan must make progress
    return plan


def generate(seed, tier, index):
    base = Stream(ID, seed, tier, index)
    rs, ru, rk = base.sub("spec"), base.sub("units"), base.sub("script")
    rf, rh = base.sub("sched"), base.sub("hist")
    kind = rs.choice(C.KINDS)
    rich = rs.chance(0.6)
    main = C.make_script_entry(rs, ru, rk, kind, MAIN_P, {"steps": (3, 40), "allow_empty_ts": True}, rich=rich)
    deep = rs.chance(0.05)
    if deep:
        # deep decay on a graph: the deterministic run passes through the subnormal range down to exactly 0, and the
        # requested times sit there. Bit-identity then also covers process-wide floating-point state (rounding / flush-to-
        # zero modes) left behind by whatever ran before
        import math
        kind = "euler"
        c = rs.uniform(0.8, 0.95)
        kdec = rs.loguniform(0.1, 10.0)
        nsub = int(math.ceil(307.0 / -math.log10(1.0 - c)))
        dtd = c / kdec
        vol = (rs.loguniform(0.5, 2.0) * 1e-6) ** 3
        spec_d = {"envs": ["cyt"],
                  "species": [{"label": "A", "D": [rs.loguniform(0.01, 0.1) * 1e-12], "dens": [0.0], "chst": [0]},
                              {"label": "B", "D": [0.0], "dens": [0.0], "chst": [0]}],
                  "reactions": [{"label": None, "sub": {"A": 1}, "prod": {"B": 1}, "kf": [kdec], "kr": [0.0]}],
                  "space": {"type": "graph", "nodes": [{"vol": vol, "env": 0}, {"vol": vol * 2, "env": 0}],
                            "edges": [{"i": 0, "j": 1, "S": vol ** (2 / 3), "dist": vol ** (1 / 3)}]},
                  "state": [rs.uniform(1.0, 100.0), rs.uniform(1.0, 100.0), 0.0, 0.0], "chem": None}
        sp_d = {"kind": "euler", "dt": dtd, "t_sample": [0.0] + [(nsub - 3 + 2 * j + 0.5) * dtd for j in range(12)], "t_max": None,
                "policy": "on_t_sample", "interval": dtd, "seed": rs.bits(31), "isp": "auto", "ongrid": False,
                "steps": nsub + 25}
        main = C.rerender_plain({"phys": {"spec": spec_d, "sp": sp_d, "kind": "euler"}})
    scripts = [main]
    sp = main["phys"]["sp"]
    seedless = sp["seed"] is None
    # pre-history scripts
    npre = rh.randint(0, 3)
    if deep:
        npre = max(npre, 1)
    for j in range(npre):
        k2 = rh.choice(C.KINDS)
        if deep and j == 0:
            # an unrelated deterministic grid run first
            scripts.append(C.make_script_entry(rh.sub("pre", j, "s"), rh.sub("pre", j, "u"), rh.sub("pre", j, "k"), "euler",
                                               dict(PRE_P, p_graph=0.0), {"steps": (2, 15), "p_seed": 1.0}, rich=False))
            continue
        if rh.chance(0.35):
            # a sibling of the main model (same species, shape and reaction count; other boundary conditions,
            # stoichiometry, constants) as pre-history: what caches keyed too coarsely would confuse
            from .. import gen
            sib = gen.sibling_spec(rh.sub("sib", j), main["phys"]["spec"], MAIN_P)
            scripts.append(C.make_script_entry(rh.sub("pre", j, "s"), rh.sub("pre", j, "u"), rh.sub("pre", j, "k"),
                                               rh.choice([k2, kind]), None, {"steps": (2, 15), "p_seed": 1.0}, rich=False, spec=sib))
            continue
        same_us = main["phys"]["us"]["quantity"] != "molecule" and rh.chance(0.4)
        if same_us:
            k2 = rh.choice(["tauleap", "gillespie"])
        pre_e = C.make_script_entry(rh.sub("pre", j, "s"), rh.sub("pre", j, "u"), rh.sub("pre", j, "k"), k2,
                                    PRE_P, {"steps": (2, 15), "p_seed": 1.0}, rich=rh.chance(0.3))
        if same_us and pre_e["phys"]["sp"]["isp"] != "none":
            # an earlier script of the same caller, written in the same units system as S - the caller holds ONE UnitsSystem
            # object for both - and run on a molecule-counting engine (which works in molecules internally)
            from .. import gen
            us_m = dict(main["phys"]["us"])
            if gen.boundary_numbers_ok(pre_e["phys"]["spec"], gen.engine_units(us_m, k2)):
                pre_e["script"] = gen.render_script(rh.sub("pre", j, "us"), pre_e["phys"]["sp"], us_m, rich=False)
                pre_e["phys"]["us"] = us_m
                pre_e["phys"]["eu"] = gen.engine_units(us_m, k2)
                pre_e["shares_units_object_with_main"] = True
        scripts.append(pre_e)
    # the Euler engine must not depend on the seed: a twin of S with another seed
    twin = None
    # (only when the initial-state processing is deterministic: "Poisson"/"redist" are seeded draws by definition)
    if kind == "euler" and not seedless and sp["isp"] in ("auto", "none") and rf.chance(0.6):
        import copy
        t = copy.deepcopy(main)
        t["script"]["rng_seed"] = rf.bits(31)
        t["phys"]["sp"]["seed"] = t["script"]["rng_seed"]
        scripts.append(t)
        twin = len(scripts) - 1

    # an earlier content of the caller's own objects: same description, other numbers (see common.retuned_entry)
    morph = None
    if not seedless and not deep and main["script"].get("t_sample") and rh.chance(0.22):
        scripts.append(C.retuned_entry(main, rh.sub("retune")))
        morph = len(scripts) - 1

    lifetimes = []
    faults = set()
    pyseed0 = rf.bits(30)
    if seedless:
        # seed drawn from `random`: every lifetime seeds `random` identically right before constructing S
        head = [["drop_script"], ["pyseed", pyseed0]]
    else:
        head = []
    ref = {"pyseed": rf.bits(30), "episodes": [
        {"obj": 0, "kind": kind, "via": "LibRDEngine", "script": 0,
         "ops": head + [["poison", 0], ["setup"], ["drive", [["iterate"]], CAP], ["output", "ref"], ["finalize"]]}]}
    lifetimes.append(ref)
    nvar = rf.randint(1, 3)
    for v in range(nvar):
        eps = []
        # process pre-history (F10)
        for j in range(npre):
            if rh.chance(0.7) or (deep and j == 0):
                k2 = scripts[1 + j]["phys"]["kind"]
                ending = rh.wchoice([("complete", 3), ("abandon", 2), ("finalize_mid", 2), ("double_finalize", 1)])
                ops = [["poison", rh.choice([0x00, 0x55, 0xff])], ["setup"]]
                if ending == "complete":
                    ops += [["drive", [["iterate_n", 7]], CAP], ["output"], ["finalize"]]
                elif ending == "abandon":
                    ops += [["iterate_n", rh.randint(0, 5)]]
                elif ending == "finalize_mid":
                    ops += [["iterate_n", rh.randint(0, 5)], ["finalize"]]
                else:
                    ops += [["iterate_n", rh.randint(0, 5)], ["finalize"], ["finalize"]]
                faults.add("prehistory:" + ending)
                eps.append({"obj": rh.randint(0, 1), "new": rh.chance(0.5), "kind": k2,
                            "via": rh.choice(["LibRDEngine", "factory"]), "script": 1 + j, "ops": ops})
        nrep = rf.randint(1, 2)
        for rep in range(nrep):
            sidx = 0
            if twin is not None and rf.chance(0.4):
                sidx = twin
                faults.add("euler_other_seed")
            mode = rf.wchoice([("drive", 6), ("simulate_script", 3), ("simulate_api", 1 if not seedless else 0)])
            ops = list(head)
            via = rf.choice(["LibRDEngine", "factory"])
            if morph is not None and sidx == 0 and mode != "simulate_api" and rf.chance(0.7):
                # the caller's live objects held another content before (and were used with it: set up, run, right-hand
                # side exported); they are re-assigned property by property to S, then used as S
                if rf.chance(0.7):
                    pre = [["poison", 0], ["setup"], ["iterate_n", rf.randint(0, 4)]]
                    if rf.chance(0.5):
                        pre += [["output"]]
                    if rf.chance(0.7):
                        pre += [["finalize"]]
                    eps.append({"obj": rf.randint(0, 2), "new": rf.chance(0.5), "kind": kind, "via": via, "script": morph,
                                "ops": pre})
                ops += [["morph", morph]]
                faults.add("live_objects_reassigned_to_S")
            if mode == "drive":
                kinds = set()
                plan = _schedule(rf, sp["steps"], kinds)
                faults.update("clock:" + k for k in kinds)
                pb = rf.choice([0x00, 0x00, 0x01, 0x7f, 0xbe, 0xff])
                ops += [["poison", pb]]   # always: the heap the engine objects land on is part of the case
                if pb:
                    faults.add("heap_poison")
                ops += [["setup", "churn"] if rf.chance(0.2) else ["setup"]]
                if rf.chance(0.3):
                    ops += [[rf.choice(["progress", "is_complete", "observe"])]]
                # (some callers loop on is_complete() instead of the return values)
                ops += [["drive", plan, CAP] + (["ic"] if rf.chance(0.3) else []), ["output", "v%d_%d" % (v, rep)]]
                if rf.chance(0.3):
                    ops += [["output", "v%d_%d_again" % (v, rep)]]
                ending = rf.wchoice([("finalize", 4), ("none", 2), ("double", 1)])
                if ending == "finalize":
                    ops += [["finalize"]]
                elif ending == "double":
                    ops += [["finalize"], ["finalize"]]
                    faults.add("double_finalize")
            elif mode == "simulate_api":
                slices = [rf.wchoice([(1, 3), (2, 2), (rf.randint(3, 30), 3), (10 ** 6, 1)]) for _ in range(rf.randint(1, 3))]
                ops += [["poison", rf.choice([0, 0xff])], ["simulate_api", {"slices": slices, "ms": 1000}]]
                faults.add("simulate_api")
            else:
                slices = [rf.wchoice([(1, 3), (2, 2), (rf.randint(3, 30), 3), (10 ** 6, 1)])
                          for _ in range(rf.randint(1, 4))]
                pb = rf.choice([0x00, 0x00, 0x01, 0x7f, 0xbe, 0xff])
                ops += [["poison", pb]]   # always: the heap the engine objects land on is part of the case
                if pb:
                    faults.add("heap_poison")
                ops += [["simulate_script", {"slices": slices, "ms": 1000, "progress": rf.chance(0.3)}, "v%d_%d" % (v, rep)]]
                faults.add("simulate_script_loop")
                if seedless or rf.chance(0.3):
                    if rf.chance(0.4):
                        # the caller goes on using (and changing) its own script object before the stored one is re-run
                        ops += [["script_touch", rf.randint(0, len(scripts) - 1)]]
                        faults.add("caller_changes_its_script_before_rerun")
                    ops += [["rerun_kept", "v%d_%d" % (v, rep), kind]]
                    faults.add("rerun_stored_script")
            eps.append({"obj": rf.randint(0, 2), "new": rf.chance(0.5), "kind": kind, "via": via, "script": sidx,
                        "ops": ops})
        lt = {"pyseed": rf.bits(30), "episodes": eps}
        if rf.chance(0.03):
            # F13: this lifetime runs in a brand-new interpreter under another PYTHONHASHSEED
            lt["fresh_interpreter"] = rf.choice([1, 12345, 987654321])
            faults.add("fresh_interpreter")
        lifetimes.append(lt)
    case = {"format": 1, "property": ID, "seed": seed, "tier": tier, "index": index, "build": "plain",
            "scripts": scripts, "lifetimes": lifetimes,
            "meta": {"kind": kind, "twin": twin, "morph": morph, "deep_decay": deep, "seedless": seedless, "pyseed0": pyseed0, "faults": sorted(faults)}}
    return case


def continue_after(case, results):
    """variants (which include the library's own uncapped simulate_script loop) only run when the iterate()-only
    reference completed within the cap"""
    res = results[0]
    if res.status != "ok":
        return False
    for ev in res.events:
        if ev["op"] == "drive" and ("exc" in ev or not ev.get("done", False)):
            return False
        if ev["op"] == "setup" and "exc" in ev:
            return False
    return True


def _outputs(case, results):
    """all (lifetime, episode, op, event) of output-like events on the main script or its twin"""
    outs = []
    for li, res in enumerate(results):
        lt = case["lifetimes"][li]
        for ev in res.events:
            if ev.get("skipped"):
                continue
            ep = lt["episodes"][ev["e"]]
            sidx = ep["script"]
            main_like = sidx == 0 or sidx == case["meta"].get("twin")
            if not main_like:
                continue
            if ev["op"] in ("output", "simulate_script", "rerun_kept", "simulate_api"):
                outs.append((li, ev["e"], ev["i"], ev))
    return outs


def check(case, results):
    viol = []
    stats = {"cases": 1, "lifetimes": len(results), "faults": {}, "schedules": set()}
    for f in case["meta"]["faults"]:
        stats["faults"][f] = 1
    # exceptions raised by the library in any op are violations here only for the main script's ops
    outs = _outputs(case, results)
    ref = None
    for (li, e, i, ev) in outs:
        if li == 0 and ev["op"] == "output" and "exc" not in ev:
            ref = ev
            break
    for li, res in enumerate(results):
        for ev in res.events:
            if "exc" in ev:
                viol.append({"class": "violation", "oracle": "C08.no-exception", "lifetime": li, "episode": ev["e"],
                             "op": ev["i"], "detail": ev["exc"] + "\n" + ev.get("tb", "")})
    if ref is None:
        if not viol and all(r.status == "ok" for r in results):
            viol.append({"class": "harness", "oracle": "harness", "detail": "no reference output", "lifetime": 0})
        return viol, stats
    stats["ref_samples"] = ref["n"]
    nloop_ref = 0
    for ev in results[0].events:
        if ev["op"] == "drive" and "exc" not in ev:
            nloop_ref = ev["nloop"]
            if not ev["done"]:
                stats["ref_hit_cap"] = 1
    stats["engine_steps"] = nloop_ref
    compared = 0
    for (li, e, i, ev) in outs:
        if ev is ref or "exc" in ev:
            continue
        compared += 1
        same = (ev["t"] == ref["t"] and ev["data"] == ref["data"])
        if "raw_t" in ev and "raw_t" in ref and same:
            same = (ev["raw_t"] == ref["raw_t"] and ev["raw_x"] == ref["raw_x"])
        sidx_ = case["lifetimes"][li]["episodes"][e]["script"]
        if same and sidx_ == 0 and ev.get("stored") and ref.get("stored") and ev["stored"] != ref["stored"]:
            viol.append({"class": "violation", "oracle": "C08.stored-script", "lifetime": li, "episode": e, "op": i,
                         "detail": "the script and system stored in the trajectory are not the ones it was computed from "
                                   "(their physical content differs from that stored by the reference run of the same script)"})
        if not same:
            viol.append({"class": "violation", "oracle": "C08.bytes-equal", "lifetime": li, "episode": e, "op": i,
                         "detail": "trajectory bytes differ from the iterate()-only reference lifetime "
                                   "(op %s; samples %s vs %s)" % (ev["op"], ev.get("nsamples", ev.get("n")), ref["n"])})
        # seed clause
        sidx = case["lifetimes"][li]["episodes"][e]["script"]
        want_seed = case["scripts"][sidx]["phys"]["sp"]["seed"]
        if want_seed is None:
            want_seed = random.Random(case["meta"]["pyseed0"]).randint(0, 2 ** 32 - 1)
            stats["seed_drawn_checked"] = stats.get("seed_drawn_checked", 0) + 1
        if ev.get("seed") is not None and ev["seed"] != want_seed:
            viol.append({"class": "violation", "oracle": "C08.stored-seed", "lifetime": li, "episode": e, "op": i,
                         "detail": "trajectory.script.rng_seed=%r, expected %r" % (ev["seed"], want_seed)})
    stats["comparisons"] = compared
    # probes
    for li, res in enumerate(results):
        for ev in res.events:
            if ev["op"] == "run" and ev.get("underflow"):
                stats["clock_underflow"] = stats.get("clock_underflow", 0) + 1
            if ev["op"] == "setup" and ev.get("status"):
                stats["setup_hit_loopcap"] = stats.get("setup_hit_loopcap", 0) + 1
        lt = case["lifetimes"][li]
        for ep in lt["episodes"]:
            stats["schedules"].add(C.sig([[o[0], o[1] if len(o) > 1 and not isinstance(o[1], (list, dict)) else None]
                                          for o in ep["ops"]],
                                         [[q[0] for q in o[1]] for o in ep["ops"] if o[0] == "drive"]))
    stats["nontrivial"] = 1 if (compared >= 1 and nloop_ref >= 2) else 0
    stats["kinds"] = {case["meta"]["kind"]: 1}
    if case["meta"].get("deep_decay"):
        stats["deep_decay_through_subnormals"] = 1
    return viol, stats


def describe(case):
    return {"kind": case["meta"]["kind"], "faults": case["meta"]["faults"],
            "script": case["scripts"][0]["script"],
            "lifetimes": [[{"obj": ep["obj"], "script": ep["script"], "via": ep.get("via"),
                            "ops": [o if len(json_short(o)) < 200 else [o[0], "..."] for o in ep["ops"]]}
                           for ep in lt["episodes"]] for lt in case["lifetimes"]]}


def json_short(o):
    import json
    return json.dumps(o)


RULE = ("case = one script S (random network/space/units/sampling/engine) + 1 reference lifetime (iterate only) + 1-3 "
        "variant lifetimes with random pre-history, engine objects, driver schedules and virtual-clock faults; "
        "non-trivial = at least one variant output compared and the reference ran >= 2 engine iterations; "
        "distinct = distinct case index with distinct schedule signatures counted separately")
ASSUMPTIONS = ["virtual clock hook H1 replaces std::chrono inside engineexport_run (guard STRENGTHS_VERIF=1)",
               "the three exported getters used by observe() are part of the library's own declared interface",
               "bit-identity is required between executions on the same machine and build"]
