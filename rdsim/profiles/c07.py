"""C07 -- stochastic engines take only legal steps, at the rates of the master equation.

Gillespie: every recorded step (on_iteration sampling => the trajectory is the step history) must be the masked
effect of an event that is enabled in the state before it; waiting times x reference total propensity must be
Exp(1); event-class indicator martingales must be standard normal. Tau-leap: per entry, the step increments have
conditional mean dt*sum(nu*a) and variance dt*sum(nu^2*a)."""
import copy
import math

import numpy as np

from .. import si
from ..models import Model
from ..prng import Stream
from ..stats import ks_exp1
from . import common as C

ID = "C07"
LEVEL = "exploration"
ZMAX = 6.5
KSMAX = 3.3

SPEC_P = dict(n_species=(1, 4), n_reactions=(0, 3), max_order=3, max_cells=9, graph_nodes=(1, 6), graph_edges=(0, 8),
              n_mol=(2.0, 40.0), templates=0.3, allow_len1_periodic=False, integer_state=True, chem="mixed",
              p_zero_D=0.15, p_zero_k=0.2)


def n_cases(tier):
    return 340 if tier == "quick" else 8000


def timeout(tier):
    return 40.0 if tier == "quick" else 180.0


def generate(seed, tier, index):
    base = Stream(ID, seed, tier, index)
    rs, ru, rk, rf = base.sub("spec"), base.sub("units"), base.sub("script"), base.sub("sched")
    kind = rs.wchoice([("gillespie", 3), ("tauleap", 2)])
    steps = (400, 2500) if kind == "gillespie" else (300, 1500)
    spec_p = SPEC_P
    if kind == "tauleap":
        # the power of the moment tests is set by the number of firings: more molecules, fewer diffusion-dominated systems
        spec_p = dict(SPEC_P, n_mol=(3.0, 300.0), p_zero_D=0.4, n_reactions=(1, 3))
    # systems in which (almost) everything is frozen or nothing can happen say nothing about rates
    from .. import gen
    spec = None
    for attempt in range(25):
        cand = gen.gen_spec(rs.sub("c07try", attempt), spec_p)
        mm = Model(cand)
        if rs.sub("c07zero", attempt).chance(0.15):
            # zero-order creation into (partly) empty space: channels whose propensity does not depend on the state
            zr = rs.sub("c07zero2", attempt)
            lab = zr.choice([s_["label"] for s_ in cand["species"]])
            ctyp_ = max(1.0, float(abs(mm.x0).mean())) / float(mm.V.mean())
            kz = zr.loguniform(0.05, 1.0) * ctyp_
            cand["reactions"] = (cand["reactions"] + [{"label": None, "sub": {}, "prod": {lab: 1},
                                                      "kf": [kz] * len(cand["envs"]), "kr": [0.0] * len(cand["envs"])}])[-3:]
            st_ = [float(v) for v in mm.x0.ravel()]
            empty_cells = [i for i in range(mm.nc) if zr.chance(0.5)]
            for s_i in range(mm.ns):
                for i in empty_cells:
                    st_[s_i * mm.nc + i] = 0.0
            cand["state"] = st_
            mm = Model(cand)
        if mm.free.mean() >= 0.6 and mm.a0(mm.x0) > 0:
            spec = cand
            break
    giant = rs.chance(0.05)
    if giant:
        # one species above 2^31 molecules in a cell (counts are doubles: exact far beyond that), next to ordinary ones
        vol = (rs.loguniform(0.5, 2.0) * 1e-6) ** 3
        nc_ = rs.choice([1, 1, 2])
        xa = float(int(rs.uniform(2.3e9, 8e9)))
        spec = {"envs": ["cyt"],
                "species": [{"label": "A", "D": [0.0], "dens": [0.0], "chst": [0]},
                            {"label": "B", "D": [0.0], "dens": [0.0], "chst": [0]},
                            {"label": "C", "D": [rs.loguniform(0.02, 0.5) * 1e-12 if nc_ > 1 else 0.0], "dens": [0.0], "chst": [0]},
                            {"label": "E", "D": [0.0], "dens": [0.0], "chst": [0]}],
                "reactions": [{"label": None, "sub": {"A": 1}, "prod": {"B": 1}, "kf": [rs.loguniform(0.5, 2.0)], "kr": [0.0]},
                              {"label": None, "sub": {"C": 1}, "prod": {"E": 1}, "kf": [rs.loguniform(0.5, 2.0)], "kr": [0.0]}],
                "space": {"type": "grid", "w": nc_, "h": 1, "d": 1, "bc": ["reflecting"] * 3, "cell_env": [0] * nc_, "vol": vol},
                "state": [xa] + [0.0] * (nc_ - 1) + [0.0] * nc_ + [float(rs.randint(20, 400))] * nc_ + [0.0] * nc_, "chem": None}
    highrate = (not giant) and kind == "tauleap" and rs.chance(0.06)
    if highrate:
        # creation at a constant high rate in every cell of a grid: 1000-1600 firings per cell and step, thousands of steps.
        # A bias of a fraction of a molecule per draw (a rounded or truncated approximation of the Poisson law) shows in
        # the pooled mean
        nc_ = rs.randint(8, 20)
        vol = (rs.loguniform(0.5, 2.0) * 1e-6) ** 3
        dth = rs.loguniform(0.01, 1.0)
        lam = rs.uniform(1050.0, 1600.0)
        spec = {"envs": ["cyt"],
                "species": [{"label": "A", "D": [0.0], "dens": [0.0], "chst": [0]}],
                "reactions": [{"label": None, "sub": {}, "prod": {"A": 1}, "kf": [lam / (vol * dth)], "kr": [0.0]}],
                "space": {"type": "grid", "w": nc_, "h": 1, "d": 1, "bc": ["reflecting"] * 3, "cell_env": [0] * nc_, "vol": vol},
                "state": [0.0] * nc_, "chem": None}
        nsth = rs.randint(1200, 1800)
        sp_h = {"kind": "tauleap", "dt": dth, "t_sample": [0.0], "t_max": (nsth - 0.5) * dth, "policy": "on_iteration",
                "interval": dth, "seed": rk.bits(31), "isp": "none", "ongrid": False, "steps": nsth}
    e0 = C.make_script_entry(rs, ru, rk, kind, spec_p,
                             {"steps": steps, "policy": "on_iteration", "isp": "none" if giant else rk.choice(["none", "none", "auto"]),
                              "p_seed": 1.0, "p_explicit_tmax": 1.0, "nreq": (1, 2), "courant": (0.02, 0.2), "p_zero_tmax": 0.0},
                             rich=rs.chance(0.3), spec=spec)
    if highrate:
        e0 = C.rerender_plain({"phys": {"spec": spec, "sp": sp_h, "kind": "tauleap"}})
    scale = "species" if index % 20 == 7 else ("cells4k" if index % 170 == 33 else None)
    if scale and not giant and not highrate:
        e0 = C.scale_entry(rs.sub("scale"), ru, rk, kind, scale, steps=(200, 400))
    else:
        scale = None
    nruns = rf.randint(3, 6) if kind == "gillespie" else rf.randint(2, 5)
    scripts = []
    eps = []
    warm = None
    if rf.chance(0.25):
        # earlier in the same process: the same grid with one boundary condition flipped (what the engine keeps per shape)
        warm = C.bc_flipped_entry(e0, rf.sub("flip"))
    for r in range(nruns):
        e = copy.deepcopy(e0)
        sd = rf.bits(31)
        e["script"]["rng_seed"] = sd
        e["phys"]["sp"]["seed"] = sd
        scripts.append(e)
        cap = 40
        ops = [["poison", 0], ["setup"], ["drive", [["iterate_n", 500]], cap], ["output"], ["finalize"]]
        eps.append({"obj": 0, "kind": kind, "via": "LibRDEngine", "script": r, "ops": ops})
    if warm is not None:
        scripts.append(warm)
        wops = [["poison", 0], ["setup"], ["iterate_n", rf.randint(1, 20)]]
        if rf.chance(0.6):
            wops.append(["finalize"])
        eps.insert(0, {"obj": rf.randint(0, 1), "kind": kind, "via": "LibRDEngine", "script": len(scripts) - 1, "ops": wops,
                       "warm": True})
    return {"format": 1, "property": ID, "seed": seed, "tier": tier, "index": index, "build": "plain",
            "scripts": scripts, "lifetimes": [{"pyseed": 1, "episodes": eps}],
            "meta": {"kind": kind, "nruns": nruns, "warm": warm is not None, "giant": giant, "highrate": highrate, "scale": scale}}


# ------------------------------------------------------------------------------------------------ static event table
class EventTable:
    """all events of a model with their (static) masked effects, grouped by identical effect"""

    def __init__(self, m):
        self.m = m
        effects = []
        self.kindlab = []      # coarse label per event: ("r", half) or ("d", species)
        self.finelab = []      # fine label: ("r", half, env) or ("d", species, tag)
        for h in range(m.nh):
            for i in range(m.nc):
                effects.append(frozenset(m.reaction_effect(h, i).items()))
                self.kindlab.append(("r", h))
                self.finelab.append(("r", h, int(m.env[i])))
        self.n_reac = len(effects)
        for s in range(m.ns):
            for fi, (i, j, S, dist, tag) in enumerate(m.faces):
                effects.append(frozenset(m.move_effect(s, i, j).items()))
                self.kindlab.append(("d", s))
                if m.spec["space"]["type"] == "grid":
                    self.finelab.append(("d", s, int(tag)))
                else:
                    self.finelab.append(("d", s, int(i)))
        gid = {}
        self.group_of_event = np.zeros(len(effects), dtype=int)
        for k, eff in enumerate(effects):
            if eff not in gid:
                gid[eff] = len(gid)
            self.group_of_event[k] = gid[eff]
        self.gid = gid
        self.ngroups = len(gid)
        # labels are functions of the group (taken from its first event): exact class probabilities, no ambiguity
        first = {}
        for k, g in enumerate(self.group_of_event):
            first.setdefault(int(g), k)
        def labelling(labs):
            ids = {}
            out = np.zeros(self.ngroups, dtype=int)
            for g in range(self.ngroups):
                lab = labs[first[g]]
                if lab not in ids:
                    ids[lab] = len(ids)
                out[g] = ids[lab]
            return out, ids
        self.coarse, self.coarse_ids = labelling(self.kindlab)
        self.fine, self.fine_ids = labelling(self.finelab)
        self.null_gid = gid.get(frozenset())
        # "this effect counts as a reaction": a function of the effect (its first event), so that its probability is exact
        self.group_is_r = np.array([self.kindlab[first[g]][0] == "r" for g in range(self.ngroups)], dtype=bool)

    def propensities(self, x):
        m = self.m
        ar = m.reac_prop(x)            # [nh, nc]
        ad = m.diff_prop(x)            # [ns, nf]
        return np.concatenate([ar.ravel(), ad.ravel()])


def analyse_gillespie(m, tab, T, X, tmax_e, done, acc, viol, ctx):
    """T [n], X [n, ns, nc] in molecules / engine time units converted to seconds by caller"""
    n = len(T)
    for k in range(n):
        xk = X[k]
        if np.any(xk < 0) or np.any(xk != np.floor(xk)):
            viol.append(dict(ctx, oracle="C07.integer-state", detail="record %d holds a negative or non-integer count" % k))
            return
    for k in range(n - 1):
        x0, x1 = X[k], X[k + 1]
        a = tab.propensities(x0)
        ag = np.bincount(tab.group_of_event, weights=a, minlength=tab.ngroups)
        a0 = float(a.sum())
        dt = T[k + 1] - T[k]
        if not (dt > 0):
            viol.append(dict(ctx, oracle="C07.time-increases", detail="t[%d]=%r, t[%d]=%r" % (k, T[k], k + 1, T[k + 1])))
            return
        d = x1 - x0
        nz = np.argwhere(d != 0)
        eff = frozenset(((int(s), int(i)), int(d[s, i])) for s, i in nz)
        g = tab.gid.get(eff)
        if g is None or not (ag[g] > 0):
            viol.append(dict(ctx, oracle="C07.legal-step",
                             detail="step %d changes the state by %s, which is not the effect of any event that is possible in "
                                    "the state before it (a0=%r)" % (k, sorted(eff), a0)))
            return
        acc["steps"] += 1
        w = dt * a0
        acc["w"].append(w)
        if g == tab.null_gid:
            acc["null_steps"] += 1
        # class martingales
        for name, lab in (("coarse", tab.coarse), ("fine", tab.fine)):
            p = np.bincount(lab, weights=ag, minlength=lab.max() + 1) / a0
            num = -p
            num[lab[g]] += 1.0
            acc[name + "_num"] += num
            acc[name + "_den"] += p * (1 - p)
        # global: reaction vs diffusion
        pr = float(ag[tab.group_is_r].sum()) / a0
        is_r = 1.0 if tab.group_is_r[g] else 0.0
        acc["g_rd_num"] += is_r - pr
        acc["g_rd_den"] += pr * (1 - pr)
    # completion: the run ends exactly when no event is possible or t > t_max
    if done and n >= 1:
        a0_last = float(tab.propensities(X[-1]).sum())
        if not (T[-1] > tmax_e) and a0_last > 0:
            viol.append(dict(ctx, oracle="C07.completion",
                             detail="the run reported completion at t=%r <= t_max=%r although events are possible (a0=%r)" % (
                                 T[-1], tmax_e, a0_last)))
        if a0_last == 0 and not (T[-1] > tmax_e):
            acc["died"] += 1


def analyse_tauleap(m, T, X, acc, viol=None, ctx=None):
    """per-entry conditional mean / variance martingales of the increments"""
    n = len(T)
    ns, nc = m.ns, m.nc
    net = m.net.astype(float)
    if not hasattr(m, "_tl_u"):
        m._tl_u = [np.ones(ns), np.arange(1, ns + 1, dtype=float)]
        m._tl_c = []
        frf = m.free.astype(float)
        for U in m._tl_u:
            cr = (net * U[None, :]) @ frf if m.nh else np.zeros((0, nc))          # [nh, nc]
            cd = U[:, None] * (-frf[:, m.f_i] + frf[:, m.f_j]) if len(m.faces) else np.zeros((ns, 0))
            m._tl_c.append((cr, cd))
    for k in range(n - 1):
        x0, x1 = X[k], X[k + 1]
        if np.any(x0 < 0):
            acc["steps_from_negative_state_excluded"] += 1
            continue
        dt = T[k + 1] - T[k]
        ar = m.reac_prop(x0)           # [nh, nc]
        ad = m.diff_prop(x0)           # [ns, nf]
        mean = np.zeros((ns, nc))
        var = np.zeros((ns, nc))
        k4 = np.zeros((ns, nc))
        if m.nh:
            mean += net.T @ ar
            var += (net.T ** 2) @ ar
            k4 += (net.T ** 4) @ ar
        if len(m.faces):
            for s in range(ns):
                np.add.at(mean[s], m.f_i, -ad[s])
                np.add.at(mean[s], m.f_j, ad[s])
                np.add.at(var[s], m.f_i, ad[s])
                np.add.at(var[s], m.f_j, ad[s])
                np.add.at(k4[s], m.f_i, ad[s])
                np.add.at(k4[s], m.f_j, ad[s])
        mean *= dt
        var *= dt
        k4 *= dt
        d = x1 - x0
        # exact support oracle: an entry can only go down (up) if some event with a positive propensity takes from
        # (adds to) it: a channel that cannot fire does not fire
        if viol is not None and not viol:
            dec = np.zeros((ns, nc), dtype=bool)
            inc = np.zeros((ns, nc), dtype=bool)
            if m.nh:
                on = ar > 0                                  # [nh, nc]
                dec |= ((net.T < 0).astype(float) @ on.astype(float)) > 0
                inc |= ((net.T > 0).astype(float) @ on.astype(float)) > 0
            if len(m.faces):
                ond = (ad > 0) & (m.f_i != m.f_j)[None, :]
                for s in range(ns):
                    np.logical_or.at(dec[s], m.f_i, ond[s])
                    np.logical_or.at(inc[s], m.f_j, ond[s])
            bad = m.free & (((d < 0) & ~dec) | ((d > 0) & ~inc))
            acc["support_entries_checked"] = acc.get("support_entries_checked", 0) + int(m.free.sum())
            if bad.any():
                s, i = np.argwhere(bad)[0]
                viol.append(dict(ctx or {}, oracle="C07.tauleap-support",
                                 detail="tau-leap step %d: entry (species %d, cell %d) changed by %r although no event with a "
                                        "positive propensity could %s it in the state before the step (state %s)" % (
                                            k, s, i, float(d[s, i]), "decrease" if d[s, i] < 0 else "increase",
                                            x0[:, i].tolist())))
        free = m.free
        # self faces (i == j) contribute nothing; they are excluded by the generator
        dev = np.where(free, d - mean, 0.0)
        # score statistics for a common scale error of all reaction (resp. diffusion) propensities: project the
        # deviations on the reaction (diffusion) part of the conditional mean; the exact conditional variance of the
        # projection follows from the independent Poisson channels
        fr = free.astype(float)
        rpart = dt * (net.T @ ar) * fr if m.nh else np.zeros((ns, nc))
        dpart = np.where(free, mean, 0.0) - rpart
        # (sign weights: every expected firing counts alike, so that pooling over cases is not dominated by the
        #  systems with the largest molecule numbers)
        #  the reaction weights are constant per species (sign of the species' total reaction drift), so that moves
        #  between free entries cancel and add no noise)
        wr = np.sign(rpart.sum(axis=1))[:, None] * fr
        for nm, wgt in (("sc_r", wr), ("sc_d", np.sign(dpart)), ("sc_m", np.sign(np.where(free, mean, 0.0)))):
            acc[nm + "_num"] += float((dev * wgt).sum())
            v = 0.0
            if m.nh:
                proj = (net * 1.0) @ (wgt)                      # [nh, nc]: sum_s nu_hs * w_si (w already masked)
                v += float((ar * proj ** 2).sum())
            if len(m.faces):
                pm = -wgt[:, m.f_i] + wgt[:, m.f_j]             # [ns, nf]
                v += float((ad * pm ** 2).sum())
            acc[nm + "_den"] += dt * v
        # linear functionals L = sum_s u_s * (change of the species total over free entries): a sum of independent
        # scaled Poisson counts, so mean, variance and fourth cumulant are exact; (L-mu)^2 - v is sensitive to a scale
        # error of the propensities even where the drifts of opposing channels cancel
        for ui, U in enumerate(m._tl_u):
            cr, cd = m._tl_c[ui]
            mu = dt * ((ar * cr).sum() + (ad * cd).sum())
            vv = dt * ((ar * cr ** 2).sum() + (ad * cd ** 2).sum())
            kk = dt * ((ar * cr ** 4).sum() + (ad * cd ** 4).sum())
            L = float((U[:, None] * np.where(free, d, 0.0)).sum())
            acc["fn_mean_num"][ui] += L - mu
            acc["fn_mean_den"][ui] += vv
            if vv > 0:
                wgt = vv / (kk + 2 * vv ** 2)       # signal/variance weights for a relative scale error
                acc["fn_var_num"][ui] += wgt * ((L - mu) ** 2 - vv)
                acc["fn_var_den"][ui] += wgt * vv
        acc["tl_mean_num"] += dev
        acc["tl_mean_den"] += np.where(free, var, 0.0)
        acc["tl_var_num"] += np.where(free, dev ** 2 - var, 0.0)
        acc["tl_var_den"] += np.where(free, k4 + 2 * var ** 2, 0.0)
        acc["steps"] += 1
        if np.any(x1 < 0):
            acc["negative_entry_after_step"] += 1


def check(case, results):
    viol = []
    kind = case["meta"]["kind"]
    stats = {"cases": 1, "lifetimes": 1, "kinds": {kind: 1}}
    res = results[0]
    phys = case["scripts"][0]["phys"]
    m = Model(phys["spec"])
    tab = EventTable(m) if kind == "gillespie" else None
    if tab is not None and tab.ngroups == 0:
        stats["nontrivial"] = 0          # no reaction and no face: nothing can ever happen
        stats["no_event_possible"] = 1
        return viol, stats
    ne = tab.ngroups if tab else 0
    acc = {"steps": 0, "w": [], "null_steps": 0, "died": 0, "g_rd_num": 0.0, "g_rd_den": 0.0,
           "sc_r_num": 0.0, "sc_r_den": 0.0, "sc_d_num": 0.0, "sc_d_den": 0.0, "sc_m_num": 0.0, "sc_m_den": 0.0,
           "fn_mean_num": [0.0, 0.0], "fn_mean_den": [0.0, 0.0], "fn_var_num": [0.0, 0.0], "fn_var_den": [0.0, 0.0],
           "steps_from_negative_state_excluded": 0, "negative_entry_after_step": 0}
    if tab:
        acc["coarse_num"] = np.zeros(tab.coarse.max() + 1)
        acc["coarse_den"] = np.zeros(tab.coarse.max() + 1)
        acc["fine_num"] = np.zeros(tab.fine.max() + 1)
        acc["fine_den"] = np.zeros(tab.fine.max() + 1)
    else:
        for k in ("tl_mean_num", "tl_mean_den", "tl_var_num", "tl_var_den"):
            acc[k] = np.zeros((m.ns, m.nc))
    evs = {(ev["e"], ev["i"]): ev for ev in res.events}
    ft = si.factor(phys["eu"], si.DIM_TIME)
    for ei, ep in enumerate(case["lifetimes"][0]["episodes"]):
        ctx = {"class": "violation", "lifetime": 0, "episode": ei}
        bad = [ev for ev in res.events if ev["e"] == ei and "exc" in ev]
        if bad:
            viol.append(dict(ctx, oracle="C07.no-exception", op=bad[0]["i"], detail=bad[0]["exc"] + "\n" + bad[0].get("tb", "")))
            continue
        if ep.get("warm"):
            stats["prehistory_same_grid_other_boundary_condition"] = 1
            continue
        st, dr, out = evs.get((ei, 1)), evs.get((ei, 2)), evs.get((ei, 3))
        if st is None or dr is None or out is None:
            continue
        if st.get("status"):
            continue
        n = out["n"]
        if n < (1 if kind == "gillespie" else 2):
            continue
        T = np.frombuffer(out["raw_t"], dtype=np.float64) * ft
        X = np.frombuffer(out["raw_x"], dtype=np.float64).reshape(n, m.ns, m.nc)
        if kind == "gillespie":
            analyse_gillespie(m, tab, T, X, st["tmax_e"] * ft, dr["done"], acc, viol, ctx)
        else:
            analyse_tauleap(m, T, X, acc, viol, ctx)
    N = acc["steps"]
    stats["engine_steps"] = N
    stats["nontrivial"] = 1 if N >= 50 else 0
    stats["null_effect_steps"] = acc["null_steps"]
    stats["runs_that_died"] = acc["died"]
    if case["meta"].get("giant"):
        stats["count_above_2^31_in_a_cell"] = 1
    if case["meta"].get("highrate"):
        stats["firings_per_draw_above_1000"] = 1
    if case["meta"].get("scale"):
        stats["scale_" + case["meta"]["scale"]] = 1
    ctx = {"class": "violation", "lifetime": 0, "episode": None}
    if kind == "gillespie" and not viol:
        w = np.array(acc["w"])
        stats["g"] = {"w_sum": float(w.sum()), "w_n": int(len(w)), "rd_num": acc["g_rd_num"], "rd_den": acc["g_rd_den"]}
        if N >= 1500:
            stats["cases_with_statistics"] = 1
            zmean = (w.mean() - 1.0) * math.sqrt(N)
            ks = ks_exp1(np.sort(w)) * math.sqrt(N)
            stats["max_abs_z_wait"] = abs(zmean)
            stats["max_ks"] = ks
            if abs(zmean) > ZMAX:
                viol.append(dict(ctx, oracle="C07.waiting-time-mean",
                                 detail="mean of dt*a0_ref over %d steps is %.5f (z=%.1f): waiting times do not follow the total "
                                        "propensity of the master equation" % (N, w.mean(), zmean)))
            elif ks > KSMAX:
                viol.append(dict(ctx, oracle="C07.waiting-time-ks",
                                 detail="KS distance of dt*a0_ref against Exp(1): D*sqrt(N)=%.2f over %d steps" % (ks, N)))
            for name, ids in (("coarse", tab.coarse_ids), ("fine", tab.fine_ids)):
                num, den = acc[name + "_num"], acc[name + "_den"]
                ok = den > 25.0          # enough expected counts for the normal approximation
                z = np.zeros_like(num)
                z[ok] = num[ok] / np.sqrt(den[ok])
                stats["classes_tested"] = stats.get("classes_tested", 0) + int(ok.sum())
                if ok.any() and np.abs(z).max() > ZMAX:
                    c = int(np.abs(z).argmax())
                    lab = [l for l, i in ids.items() if i == c][0]
                    viol.append(dict(ctx, oracle="C07.event-choice",
                                     detail="event class %s: observed minus expected count = %.1f over %d steps (z=%.1f)" % (
                                         lab, num[c], N, z[c])))
                    break
    elif kind == "tauleap" and not viol:
        stats["tauleap_excluded_steps"] = acc["steps_from_negative_state_excluded"]
        stats["tauleap_support_entries_checked"] = acc.get("support_entries_checked", 0)
        stats["tauleap_negative_after_step"] = acc["negative_entry_after_step"]
        if N >= 100:
            stats["cases_with_statistics"] = 1
            for name, thr in (("tl_mean", ZMAX), ("tl_var", ZMAX + 1.0)):
                num, den = acc[name + "_num"], acc[name + "_den"]
                minden = 25.0 if name == "tl_mean" else 400.0
                ok = den > minden
                z = np.zeros_like(num)
                z[ok] = num[ok] / np.sqrt(den[ok])
                stats["entries_tested"] = stats.get("entries_tested", 0) + int(ok.sum())
                if ok.any() and np.abs(z).max() > thr:
                    s, i = np.unravel_index(int(np.abs(z).argmax()), z.shape)
                    viol.append(dict(ctx, oracle="C07.tauleap-" + ("mean" if name == "tl_mean" else "variance"),
                                     detail="entry (species %d, cell %d): sum of (increment - dt*sum(nu*a))%s over %d steps is %.1f, "
                                            "z=%.1f" % (s, i, "" if name == "tl_mean" else "^2 - variance", N, num[s, i], z[s, i])))
                    break
            for nm, what in (("sc_r", "reaction"), ("sc_d", "diffusion")):
                if acc[nm + "_den"] > 25.0:
                    z = acc[nm + "_num"] / math.sqrt(acc[nm + "_den"])
                    stats["max_abs_z_tauleap_score"] = max(stats.get("max_abs_z_tauleap_score", 0.0), abs(z))
                    if abs(z) > ZMAX and not viol:
                        viol.append(dict(ctx, oracle="C07.tauleap-%s-scale" % what,
                                         detail="score statistic for a common scale error of the %s propensities: z=%.1f over %d "
                                                "steps (firing counts are not Poisson with mean propensity x time step)" % (what, z, N)))
            for ui in range(2):
                if acc["fn_mean_den"][ui] > 100.0 and not viol:
                    zm = acc["fn_mean_num"][ui] / math.sqrt(acc["fn_mean_den"][ui])
                    zv = acc["fn_var_num"][ui] / math.sqrt(acc["fn_var_den"][ui])
                    stats["max_abs_z_tauleap_functional"] = max(stats.get("max_abs_z_tauleap_functional", 0.0), abs(zm), abs(zv))
                    if abs(zm) > ZMAX or abs(zv) > ZMAX + 1.0:
                        viol.append(dict(ctx, oracle="C07.tauleap-functional",
                                         detail="weighted species totals (weights %s): mean z=%.1f, variance z=%.1f over %d steps: "
                                                "firing counts are not Poisson with mean propensity x time step" % (
                                                    "1,1,.." if ui == 0 else "1,2,3,..", zm, zv, N)))
            stats["g"] = {"sc_r_num": acc["sc_r_num"], "sc_r_den": acc["sc_r_den"],
                          "sc_d_num": acc["sc_d_num"], "sc_d_den": acc["sc_d_den"],
                          "sc_m_num": acc["sc_m_num"], "sc_m_den": acc["sc_m_den"]}
            for ui in range(2):
                stats["g"]["fnm%d_num" % ui] = acc["fn_mean_num"][ui]
                stats["g"]["fnm%d_den" % ui] = acc["fn_mean_den"][ui]
                stats["g"]["fnv%d_num" % ui] = acc["fn_var_num"][ui]
                stats["g"]["fnv%d_den" % ui] = acc["fn_var_den"][ui]
    return viol, stats


def global_check(total):
    """pooled statistics over the whole run (small systematic biases that single cases cannot see)"""
    out = []
    g = total.get("g") or {}
    info = {}
    if g.get("w_n", 0) >= 10000:
        z = (g["w_sum"] / g["w_n"] - 1.0) * math.sqrt(g["w_n"])
        info["pooled_wait_z"] = z
        info["pooled_wait_steps"] = g["w_n"]
        if abs(z) > ZMAX:
            out.append({"class": "violation", "oracle": "C07.pooled-waiting-time",
                        "detail": "pooled mean of dt*a0_ref over %d Gillespie steps is %.6f (z=%.1f)" % (
                            g["w_n"], g["w_sum"] / g["w_n"], z)})
    for nm, what in (("sc_r", "reaction"), ("sc_d", "diffusion"), ("sc_m", "drift-direction")):
        if g.get(nm + "_den", 0) > 100:
            z = g[nm + "_num"] / math.sqrt(g[nm + "_den"])
            info["pooled_tauleap_%s_scale_z" % what] = z
            if abs(z) > ZMAX:
                out.append({"class": "violation", "oracle": "C07.pooled-tauleap-%s-scale" % what,
                            "detail": "pooled score statistic for a common scale error of the tau-leap %s propensities: "
                                      "z=%.1f" % (what, z)})
    for ui in range(2):
        for nm, what, thr in (("fnm%d" % ui, "mean", ZMAX), ("fnv%d" % ui, "variance", ZMAX + 1.0)):
            if g.get(nm + "_den", 0) > 1000:
                z = g[nm + "_num"] / math.sqrt(g[nm + "_den"])
                info["pooled_tauleap_functional%d_%s_z" % (ui, what)] = z
                if abs(z) > thr:
                    out.append({"class": "violation", "oracle": "C07.pooled-tauleap-functional-%s" % what,
                                "detail": "pooled %s statistic of the weighted species totals (weights #%d) over all tau-leap "
                                          "steps: z=%.1f" % (what, ui, z)})
    if g.get("rd_den", 0) > 100:
        z = g["rd_num"] / math.sqrt(g["rd_den"])
        info["pooled_reaction_vs_diffusion_z"] = z
        if abs(z) > ZMAX:
            out.append({"class": "violation", "oracle": "C07.pooled-reaction-vs-diffusion",
                        "detail": "reaction events minus their expected number = %.1f (z=%.1f)" % (g["rd_num"], z)})
    return out, info


def describe(case):
    ph = case["scripts"][0]["phys"]
    return {"kind": case["meta"]["kind"], "runs": case["meta"]["nruns"],
            "reactions": [{"sub": r["sub"], "prod": r["prod"], "kf": r["kf"], "kr": r["kr"]} for r in ph["spec"]["reactions"]],
            "space": {k: v for k, v in ph["spec"]["space"].items() if k in ("type", "w", "h", "d", "bc")},
            "t_max_s": ph["sp"]["t_max"], "dt_s": ph["sp"]["dt"]}


RULE = ("case = one system with integer molecule counts (orders 0-3 with repeated reactants, environment-specific constants "
        "incl. zeros, chemostat maps, grids with reflecting/periodic axes of length >= 2, graphs without self-loops), run 2-6 "
        "times with different seeds on the Gillespie or tau-leap engine with per-iteration sampling; every Gillespie step is "
        "matched against the static table of masked event effects (legality) and feeds waiting-time and event-class martingales; "
        "tau-leap steps feed per-entry mean/variance martingales; non-trivial = at least 50 analysed steps")
ASSUMPTIONS = ["statistical thresholds 6.5 sigma / KS 3.3 (Appendix C of DESIGN.md): false-alarm probability < 1e-6 per check run",
               "class labels are functions of the masked effect, so class probabilities are exact even when several events "
               "share an effect",
               "tau-leap steps that start from a state with a negative entry are excluded from the statistics"]
