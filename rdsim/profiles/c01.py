"""C01 -- deterministic rate law: every Euler step of every simulated history equals x + dt*f_ref(x); the Python
kinetics functions ride along as co-observers at states the trajectory visits."""
import numpy as np

from .. import si, traj
from ..models import Model
from ..prng import Stream
from . import common as C

ID = "C01"
LEVEL = "exploration"

SPEC_P = dict(n_species=(1, 5), n_reactions=(0, 4), max_order=4, max_cells=24, graph_nodes=(1, 8), graph_edges=(0, 12),
              n_mol=(1.0, 1000.0), templates=0.3)
SMALL_P = dict(n_species=(1, 3), n_reactions=(0, 3), max_order=4, max_cells=4, graph_nodes=(1, 4), graph_edges=(0, 5),
               n_mol=(1.0, 1000.0), templates=0.3)


def n_cases(tier):
    return 2400 if tier == "quick" else 60000


def timeout(tier):
    return 20.0 if tier == "quick" else 120.0


def generate(seed, tier, index):
    base = Stream(ID, seed, tier, index)
    rs, ru, rk, rf = base.sub("spec"), base.sub("units"), base.sub("script"), base.sub("sched")
    coobs = rf.chance(0.25)
    entry = C.make_script_entry(rs, ru, rk, "euler", SMALL_P if coobs else SPEC_P,
                                {"steps": (3, 40), "isp": "auto", "p_ongrid": 0.05}, rich=rs.chance(0.85))
    scale = "species" if index % 60 == 9 else ("cells4k" if index % 240 == 17 else ("cells33k" if index % 1200 == 601 else None))
    if scale is None and index % 30 == 4:
        scale = "grid3d"
    if scale:
        # inputs at scales the ordinary generator never reaches (more than 32 species, thousands of cells)
        entry = C.scale_entry(rs.sub("scale"), ru, rk, "euler", scale, steps=(3, 6))
        coobs = False
    if not scale and rf.chance(0.1):
        # the script's units system is re-assigned after construction (the stored quantities keep their own units)
        from .. import gen
        for att_ in range(6):
            us2 = gen.draw_us(rf.sub("post", att_))
            if gen.boundary_numbers_ok(entry["phys"]["spec"], us2):
                entry["post_units"] = us2
                entry["phys"]["us"] = us2
                entry["phys"]["eu"] = gen.engine_units(us2, "euler")
                break
    sp = entry["phys"]["sp"]
    m = Model(entry["phys"]["spec"])
    ops = C.observed_ops(rf, sp, "euler", samples=False, readonly=False, post=False, poison=rf.choice([0, 0xff]))
    if coobs:
        # co-observers at the initial state and at one visited state
        entries = [[rf.randint(0, m.ns - 1), rf.randint(0, m.nc - 1)] for _ in range(rf.randint(1, 4))]
        U = gen_us(rf)
        ac = rf.chance(0.3)         # the kinetics functions with the chemostat mask applied (default of the API)
        # building blocks: forward/reverse rates of one reaction in one cell, exchange rates across one face
        parts = []
        if m.nh and rf.chance(0.7):
            parts.append(["r", rf.randint(0, m.nh // 2 - 1), rf.randint(0, m.nc - 1)])
        uniq = {}
        for (i, j, S, dist, tag) in m.faces:
            if i != j:
                uniq.setdefault((min(i, j), max(i, j)), []).append((i, j))
        single = [v[0] for v in uniq.values() if len(v) == 2]   # pairs joined by exactly one face in each direction
        if single and rf.chance(0.7):
            i, j = rf.choice(single)
            parts.append(["d", rf.randint(0, m.ns - 1), i, j])
        k1 = ["kinetics", entries, ac, U, None, parts]
        if m.nc == 1 and rf.chance(0.7):
            k1 = ["kinetics", "all", ac, U, "dxdtf"]
        elif m.ns * m.nc <= 6 and rf.chance(0.5):
            k1 = ["kinetics", "all", ac, U]
        # position: after set-up and after the drive
        i_drive = [i for i, o in enumerate(ops) if o[0] == "drive"][0]
        ops.insert(i_drive + 1, k1)
        if m.nh and rf.chance(0.35):
            # between the two evaluations the caller assigns ONE rate constant on its own system object (after having
            # exported and used the right-hand side): the engine keeps running on what it was set up with, the kinetics
            # functions and a newly exported right-hand side follow the assignment
            ops.insert(i_drive + 1, ["set_k", rf.randint(0, m.nh // 2 - 1), rf.choice(["kf", "kr", "kr"]),
                                     rf.choice([0.25, 0.5, 2.0, 3.0])] + (["method"] if rf.chance(0.4) else []))
        ops.insert(i_drive, ["kinetics", entries, ac, gen_us(rf)])
    ops.append(["finalize"])
    scripts = [entry]
    eps = []
    if rf.chance(0.35):
        eps.append(C.warmup_episode(base.sub("warm"), scripts, kind=rf.choice(["euler", "euler", "tauleap"])))
    eps.append({"obj": 0, "kind": "euler", "via": rf.choice(["LibRDEngine", "factory"]), "script": 0, "ops": ops})
    return {"format": 1, "property": ID, "seed": seed, "tier": tier, "index": index, "build": "plain",
            "scripts": scripts, "lifetimes": [{"pyseed": rf.bits(30), "episodes": eps}],
            "meta": {"kind": "euler", "coobs": coobs, "main_episode": len(eps) - 1, "scale": scale}}


def gen_us(rf):
    from .. import gen
    return gen.draw_us(rf)


def check_kinetics(ev, op, m, phys, viol, stats, tag, masked):
    """co-observer: kinetics values vs f_ref at the state the engine was in"""
    eu = phys["eu"]
    fq = si.factor(eu, si.DIM_QUANTITY)
    X = np.frombuffer(ev["x"], dtype=np.float64).reshape(m.ns, m.nc) * fq
    if not np.all(np.isfinite(X)):
        return
    f, scale = m.f(X, mask=masked, want_scale=True)
    U = op[3]
    fr = si.factor(U, si.DIM_RATE)
    for d in ev["dims"]:
        if d != [0, -1, 1]:
            viol.append({"oracle": tag + ".kinetics-dimension", "detail": "returned dimension %s, not amount/time" % d})
            return
    if op[1] == "all":
        got = np.array(ev["vals"]).reshape(m.ns, m.nc)
        fsys = si.factor({"space": ev["usys"][0], "time": ev["usys"][1], "quantity": ev["usys"][2]}, si.DIM_RATE)
        got = got * fsys
        idx = [(s, i) for s in range(m.ns) for i in range(m.nc)]
    else:
        got = np.zeros((m.ns, m.nc))
        idx = [tuple(e) for e in op[1]]
        for (s, i), v, us in zip(idx, ev["vals"], ev["usys_list"]):
            got[s, i] = v * si.factor({"space": us[0], "time": us[1], "quantity": us[2]}, si.DIM_RATE)
    for (s, i) in idx:
        tol = 1e-10 * scale[s, i] + 1e-300
        stats["kinetics_entries_checked"] = stats.get("kinetics_entries_checked", 0) + 1
        if abs(got[s, i] - f[s, i]) > tol:
            viol.append({"oracle": tag + ".kinetics-value",
                         "detail": "compute_dspeciesdt(species %d, cell %d, apply_chemostats=%s) = %r molecules/s, the rate law "
                                   "gives %r (scale %r)" % (s, i, op[2], got[s, i], f[s, i], scale[s, i])})
            return
    if "parts" in ev and len(op) > 5 and op[5]:
        r = m.rates(X)
        for prt, res in zip(op[5], ev["parts"]):
            a, b, asys, adim, bsys, bdim = res
            if adim != [0, -1, 1] or bdim != [0, -1, 1]:
                viol.append({"oracle": tag + ".kinetics-dimension", "detail": "rate dimension %s / %s" % (adim, bdim)})
                return
            fa = si.factor({"space": asys[0], "time": asys[1], "quantity": asys[2]}, si.DIM_RATE)
            fb = si.factor({"space": bsys[0], "time": bsys[1], "quantity": bsys[2]}, si.DIM_RATE)
            if prt[0] == "r":
                want = (float(r[2 * prt[1], prt[2]]), float(r[2 * prt[1] + 1, prt[2]]))
                what = "compute_reaction_rates(reaction %d, cell %d)" % (prt[1], prt[2])
            else:
                s_, i_, j_ = prt[1], prt[2], prt[3]
                fo = [k for k, f in enumerate(m.faces) if f[0] == i_ and f[1] == j_][0]
                fi = [k for k, f in enumerate(m.faces) if f[0] == j_ and f[1] == i_][0]
                want = (float(X[s_, i_] * m.kd[s_, fo]), float(X[s_, j_] * m.kd[s_, fi]))
                what = "compute_diffusion_rates(species %d, %d -> %d)" % (s_, i_, j_)
            stats["kinetics_parts_checked"] = stats.get("kinetics_parts_checked", 0) + 1
            for got, w_ in ((a * fa, want[0]), (b * fb, want[1])):
                if abs(got - w_) > 1e-10 * max(abs(w_), abs(got)) + 1e-300:
                    viol.append({"oracle": tag + ".kinetics-parts", "detail": "%s = (%r, %r) molecules/s, the rate law gives %r" % (
                        what, a * fa, b * fb, want)})
                    return
    if "dxdtf" in ev:
        fU = si.factor(U, si.DIM_RATE)
        g = np.array(ev["dxdtf"]) * fU
        fm = m.f(X, mask=True)[:, 0]
        sc = scale[:, 0]
        stats["dxdtf_checked"] = stats.get("dxdtf_checked", 0) + 1
        if np.any(np.abs(g - fm) > 1e-10 * sc + 1e-300):
            viol.append({"oracle": tag + ".dxdtf-value", "detail": "make_dxdtf()(t, x) = %s, the rate law gives %s" % (
                list(g), list(fm))})
        elif "dxdtf_again" in ev:
            g2 = np.array(ev["dxdtf_again"]) * fU
            if np.any(np.abs(g2 - fm) > 1e-10 * sc + 1e-300):
                viol.append({"oracle": tag + ".dxdtf-value",
                             "detail": "the function returned by make_dxdtf() gives %s on a later call at the same state, the "
                                       "rate law (and its own first call) gives %s" % (list(g2), list(fm))})


def check(case, results):
    viol = []
    stats = {"cases": 1, "lifetimes": 1}
    res = results[0]
    entry = case["scripts"][0]
    phys = entry["phys"]
    m = Model(phys["spec"])
    me = case["meta"].get("main_episode", 0)
    if me:
        stats["warmup_prehistory"] = 1
    h = traj.extract(case, 0, me, res, m.ns, m.nc)
    if h.problems:
        return [{"class": "harness", "oracle": "harness", "detail": "; ".join(h.problems)}], stats
    v = []
    for ev in h.exc:
        v.append({"oracle": "C01.no-exception", "detail": ev["exc"] + "\n" + ev.get("tb", ""), "op": ev["i"]})
    if h.setup is not None and h.obs0 is not None:
        fq = si.factor(phys["eu"], si.DIM_QUANTITY)
        X0 = h.obs0.x * fq
        if np.any(np.abs(X0 - m.x0) > 1e-12 * np.abs(m.x0) + 1e-300):
            d = np.argwhere(np.abs(X0 - m.x0) > 1e-12 * np.abs(m.x0) + 1e-300)[0]
            v.append({"oracle": "C01.initial-state", "detail": "entry (species %d, cell %d) starts at %r molecules, the "
                      "description gives %r" % (d[0], d[1], X0[d[0], d[1]], m.x0[d[0], d[1]])})
        else:
            traj.check_script_numbers(h.setup, phys, v, "C01")
            traj.euler_oracle(h, m, phys, v, stats, "C01")
        ops = case["lifetimes"][0]["episodes"][me]["ops"]
        mk = m
        for ev in sorted((e_ for e_ in res.events if e_["e"] == me), key=lambda e_: e_["i"]):
            if ev["op"] == "set_k" and "exc" not in ev and not ev.get("skipped"):
                import copy
                o_ = ops[ev["i"]]
                spec2 = copy.deepcopy(mk.spec)
                spec2["reactions"][o_[1]][o_[2]] = [float(x) * float(o_[3]) for x in spec2["reactions"][o_[1]][o_[2]]]
                mk = Model(spec2)
                stats["rate_constant_reassigned_on_live_system"] = 1
            if ev["op"] == "kinetics" and "exc" not in ev and not ev.get("skipped"):
                check_kinetics(ev, ops[ev["i"]], mk, phys, v, stats, "C01", masked=bool(ops[ev["i"]][2]))
    nst = stats.get("euler_steps_checked", 0)
    stats["engine_steps"] = nst
    stats["nontrivial"] = 1 if nst >= 2 else 0
    stats["space"] = {phys["spec"]["space"]["type"]: 1}
    if case["meta"].get("scale"):
        stats["scale_" + case["meta"]["scale"]] = 1
    stats["orders"] = {str(int(o)): 1 for o in set(m.order.tolist())}
    if phys["spec"]["space"]["type"] == "grid":
        sp = phys["spec"]["space"]
        for L, b in zip((sp["w"], sp["h"], sp["d"]), sp["bc"]):
            if b == "periodical" and L <= 2:
                stats["periodic_axis_len_%d" % L] = 1
    for x in v:
        x.update({"class": "violation", "lifetime": 0, "episode": 0})
    viol.extend(v)
    return viol, stats


def describe(case):
    return {"system": case["scripts"][0]["system"], "script": case["scripts"][0]["script"],
            "ops": [[o[0] for o in ep["ops"]] for ep in case["lifetimes"][0]["episodes"]]}


RULE = ("case = one random system (1-5 species, 0-4 reactions of orders 0-4 with repeated species / empty sides, 1-3 "
        "environments with defaults and zeros, grid <= 24 cells with reflecting/periodic axes incl. lengths 1 and 2, or graph "
        "<= 8 nodes with random volumes/surfaces/distances) rendered under random units at every nesting level, run on the "
        "Euler engine as an observed episode; every step is compared with x+dt*f_ref(x) (rtol 1e-11 of |x|+dt*sum|terms|); in a "
        "quarter of the cases the Python kinetics functions are evaluated at visited states (co-observers); non-trivial = at "
        "least 2 checked Euler steps")
ASSUMPTIONS = ["the reference law in /verif/rdsim/models.py is the statement's law (mass action + Bernstein diffusion)",
               "co-observer evaluations are plain differential evaluations at visited states, counted separately "
               "(kinetics_entries_checked, dxdtf_checked)"]
