"""helpers shared by the property profiles"""
import numpy as np

from .. import gen, si
from ..models import Model
from ..prng import Stream

KINDS = ["euler", "tauleap", "gillespie"]


def make_script_entry(rs, ru, rk, kind, spec_p=None, script_p=None, rich=True, mild_units=False, max_redraw=20,
                      spec=None):
    """draws spec + script + rendering. returns a scripts-table entry (JSON-able)"""
    drawer = gen.draw_us_mild if mild_units else gen.draw_us
    for attempt in range(max_redraw):
        if spec is None or attempt > 0:
            spec_ = gen.gen_spec(rs.sub("try", attempt), spec_p)
        else:
            spec_ = spec
        us = drawer(ru) if rich else dict(si.DEFAULT_US)
        eu = gen.engine_units(us, kind)
        if gen.boundary_numbers_ok(spec_, eu):
            break
    else:
        us = dict(si.DEFAULT_US)
        eu = gen.engine_units(us, kind)
    sp = gen.gen_script(rk, spec_, kind, script_p)
    if kind != "euler" and sp["isp"] == "none" and rich:
        # integer molecule counts handed unprocessed to a stochastic engine must not go through a unit round trip
        # (5 molecules written in mol come back as 4.999999999999999): state and script are written in molecules
        rich = False
        us = dict(si.DEFAULT_US)
        eu = gen.engine_units(us, kind)
    R = gen.Renderer(ru, rich=rich, drawer=drawer)
    sysd, pus, info = R.system(spec_)
    kw = gen.render_script(ru, sp, us, rich=rich)
    return {"system": sysd, "parent_us": pus, "script": kw,
            "phys": {"spec": spec_, "sp": sp, "us": us, "eu": eu, "kind": kind}}


def rerender_plain(entry):
    """same physics, default units, bare numbers, canonical keys (used by the shrinker)"""
    ru = Stream("plain")
    spec = entry["phys"]["spec"]
    sp = entry["phys"]["sp"]
    kind = entry["phys"]["kind"]
    us = dict(si.DEFAULT_US)
    R = gen.Renderer(ru, rich=False)
    sysd, pus, info = R.system(spec, parent_eff=dict(si.DEFAULT_US))
    kw = gen.render_script(ru, sp, us, rich=False)
    return {"system": sysd, "parent_us": pus, "script": kw,
            "phys": {"spec": spec, "sp": sp, "us": us, "eu": gen.engine_units(us, kind), "kind": kind}}


def events_by_pos(res):
    return {(ev["e"], ev["i"]): ev for ev in res.events}


def arr(b):
    return np.frombuffer(b, dtype=np.float64)


def sig(*parts):
    """small stable hash for distinctness counting"""
    import hashlib
    return int.from_bytes(hashlib.sha256(repr(parts).encode()).digest()[:6], "big")


def random_clock_plan(rf, ms, max_iter):
    """absolute clock values for one run(ms) slice: t0 then one value per iteration; includes stalls, forward
    and backward jumps. The last value always reaches t0+ms so that the slice ends within the plan."""
    n = rf.randint(1, max_iter)
    t0 = rf.randint(0, 10 ** 6)
    vals = [t0]
    kinds = set()
    for k in range(n - 1):
        c = rf.wchoice([("stall", 4), ("tick", 3), ("back", 1), ("near", 1)])
        if ms <= 0:
            c = "stall"
        if c == "stall":
            vals.append(vals[-1])
        elif c == "tick":
            vals.append(min(vals[-1] + rf.randint(0, max(0, ms // (n + 1))), t0 + ms - 1))
        elif c == "back":
            vals.append(vals[-1] - rf.randint(1, 5000))
        else:
            vals.append(t0 + ms - 1)
        kinds.add(c)
        if vals[-1] - t0 >= ms:
            vals[-1] = t0 + ms - 1
    jump = rf.wchoice([(0, 3), (1, 2), (10 ** 5, 1)])
    vals.append(t0 + ms + jump)
    if jump:
        kinds.add("fwdjump")
    return vals, kinds


# ------------------------------------------------------------------------------------------------ observed episodes
def fixed_steps_needed(sp):
    """iterations a fixed-step engine needs: first n with n*dt > t_max"""
    tmax = sp["t_max"] if sp["t_max"] is not None else (sp["t_sample"][-1] if sp["t_sample"] else 0.0)
    return int(tmax / sp["dt"]) + 1


def observed_ops(rf, sp, kind, samples=True, readonly=True, post=True, cap=None, poison=None, outputs=1):
    """op list of an observed episode: every action is followed by an observe"""
    ops = []
    if poison is not None:
        ops.append(["poison", poison])
    ops += [["setup"], ["observe"]]
    if readonly and rf.chance(0.4):
        ops += [["is_complete"], ["observe"]]
    if samples and rf.chance(0.3):
        ops += [["sample"], ["observe"]]
        if rf.chance(0.3):
            ops += [["sample"], ["observe"]]
    plan = []
    for _ in range(rf.randint(1, 8)):
        plan += [["iterate"], ["observe"]]
        if samples and rf.chance(0.25):
            plan += [["sample"], ["observe"]]
            if rf.chance(0.2):
                plan += [["sample"], ["observe"]]
        if readonly and rf.chance(0.15):
            plan += [[rf.choice(["progress", "is_complete"])], ["observe"]]
    if cap is None:
        if kind == "gillespie":
            cap = 20 * sp["steps"] + 200
        else:
            cap = fixed_steps_needed(sp) + 5
    ops.append(["drive", plan, cap])
    if post:
        for _ in range(rf.randint(0, 3)):
            c = rf.wchoice([("iterate", 3), ("sample", 2), ("ro", 1), ("empty", 1)])
            if c == "iterate":
                ops += [["iterate"], ["observe"]]
            elif c == "empty":
                # an empty batch after the run: performs nothing, reports what is_complete() reports
                ops += [["iterate_n", 0], ["observe"], ["is_complete"], ["observe"]]
            elif c == "sample" and samples:
                ops += [["sample"], ["observe"]]
            elif readonly:
                ops += [[rf.choice(["progress", "is_complete"])], ["observe"]]
    for k in range(outputs):
        ops.append(["output"])
    return ops


def warmup_episode(rw, scripts, kind=None, obj=1):
    """an unrelated short simulation executed earlier in the same process lifetime (state that survives in static or
    module-level variables of the library shows up in whatever runs next). Appends its script to `scripts`."""
    k = kind or rw.choice(KINDS)
    p = dict(n_species=(1, 3), n_reactions=(0, 3), max_cells=6, graph_nodes=(1, 4), graph_edges=(0, 4), n_mol=(1.0, 50.0))
    if rw.chance(0.6):
        p["p_graph"] = 0.0      # grids: the engine keeps per-shape / per-volume tables
    e = make_script_entry(rw.sub("s"), rw.sub("u"), rw.sub("k"), k, p, {"steps": (2, 10), "p_seed": 1.0}, rich=rw.chance(0.3))
    scripts.append(e)
    ending = rw.wchoice([("finalize", 3), ("abandon", 1)])
    ops = [["poison", rw.choice([0, 0x55, 0xff])], ["setup"], ["iterate_n", rw.randint(1, 6)]]
    if ending == "finalize":
        ops.append(["finalize"])
    return {"obj": obj, "new": True, "kind": k, "via": "LibRDEngine", "script": len(scripts) - 1, "ops": ops}


# ------------------------------------------------------------------------------------------------ retuned descriptions
_D_KEYS = {"D", "diff_coef", "diffusion_coefficient", "diff coef", "diffusion coefficient"}
_DENS_KEYS = {"density", "concentration", "dens", "conc", "C"}
_K_KEYS = {"k+", "kf", "k-", "kr"}


def _scaled(v, f):
    """a rendered quantity (number, "number unit" text, per-environment dictionary) multiplied by f"""
    if isinstance(v, bool):
        return v
    if isinstance(v, (int, float)):
        return float(v) * f
    if isinstance(v, str):
        head, _, tail = v.partition(" ")
        try:
            return "%r %s" % (float(head) * f, tail) if tail else "%r" % (float(head) * f)
        except ValueError:
            return v
    if isinstance(v, dict):
        if "__uv__" in v:
            return {"__uv__": _scaled(v["__uv__"], f)}
        return {k: _scaled(x, f) for k, x in v.items()}
    return v


def retuned_entry(entry, rs):
    """the same description with other numbers in the same places: rate constants, diffusion coefficients, densities,
    explicit state (doubled, whole numbers stay whole), fewer requested times, another seed and sampling interval.
    Structure, stoichiometry, geometry, chemostat flags and every unit stay what they are. Used as the EARLIER content of a
    live object that the caller then re-assigns, property by property, to the content of `entry`."""
    import copy
    e = copy.deepcopy(entry)
    sysd = e["system"]
    nkey = "network" if "network" in sysd else "rdnetwork"
    nd = sysd[nkey]
    changed = []        # which properties differ (what the caller will re-assign, and nothing else)
    for si_, sd in enumerate(nd["species"]):
        for k in list(sd):
            if (k in _D_KEYS or k in _DENS_KEYS) and rs.chance(0.5):
                new = _scaled(sd[k], rs.choice([0.5, 2.0, 3.0]))
                if new != sd[k]:
                    sd[k] = new
                    changed.append(["species", si_, "D" if k in _D_KEYS else "density"])
    for ri_, rd in enumerate(nd["reactions"]):
        for k in list(rd):
            if k in _K_KEYS and rs.chance(0.5):
                new = _scaled(rd[k], rs.choice([0.25, 0.5, 2.0, 4.0]))
                if new != rd[k]:
                    rd[k] = new
                    changed.append(["reaction", ri_, "kf" if k in ("k+", "kf") else "kr"])
    if "state" in sysd and rs.chance(0.5):
        st = sysd["state"]
        if isinstance(st, dict):
            st["value"] = [2.0 * float(v) for v in st["value"]]
        else:
            sysd["state"] = [2.0 * float(v) for v in st]
        changed.append(["state"])
    elif "state" not in sysd and any(c[0] == "species" and c[2] == "density" for c in changed):
        changed.append(["state"])       # the default state follows the densities: assigned explicitly by the caller
    kw = e["script"]
    ts = kw.get("t_sample")
    if isinstance(ts, list) and len(ts) >= 2 and rs.chance(0.6):
        kw["t_sample"] = ts[:max(1, len(ts) - rs.randint(1, 2))]
        changed.append(["t_sample"])
    if kw.get("rng_seed") is not None and rs.chance(0.6):
        kw["rng_seed"] = rs.bits(31)
        changed.append(["rng_seed"])
    if "sampling_interval" in kw and rs.chance(0.5):
        kw["sampling_interval"] = _scaled(kw["sampling_interval"], 2.0)
        changed.append(["sampling_interval"])
    e["changed"] = rs.shuffle(changed)
    e["phys"] = dict(entry["phys"])
    e["retuned_from_main"] = True
    return e


def bc_flipped_entry(entry, rs):
    """the same grid model with one boundary condition flipped (same dimensions): None when there is nothing to flip"""
    import copy
    spec = entry["phys"]["spec"]
    sp = spec["space"]
    if sp["type"] != "grid":
        return None
    dims = [sp["w"], sp["h"], sp["d"]]
    axes = [k for k in range(3) if dims[k] >= 2]
    if not axes:
        return None
    k = rs.choice(axes)
    e = copy.deepcopy(entry)
    new = "reflecting" if sp["bc"][k] == "periodical" else "periodical"
    e["phys"]["spec"]["space"]["bc"][k] = new
    sysd = e["system"]
    skey = "space" if "space" in sysd else "rdspace"
    bcd = dict(sysd[skey].get("boundary_conditions", {}))
    bcd["xyz"[k]] = new
    sysd[skey]["boundary_conditions"] = bcd
    return e


def giant_entry(rs, rk):
    """tau-leap script in which one channel A -> n B fires between 2^31/n and 2^31 times - or, half of the time, more than
    2^31 times - in a single step of a single cell (billions of molecules of A)"""
    n_ = rs.choice([2, 2, 3])
    F = rs.uniform(1.15 * 2 ** 31 / n_, 0.85 * 2 ** 31) if rs.chance(0.5) else rs.uniform(1.1 * 2 ** 31, 3.0 * 2 ** 31)
    kdt = rs.uniform(0.3, 0.6)
    kdec = rs.loguniform(0.1, 10.0)
    vol = (rs.loguniform(0.5, 2.0) * 1e-6) ** 3
    nc_ = rs.choice([1, 2])
    spec_g = {"envs": ["cyt"],
              "species": [{"label": "A", "D": [0.0], "dens": [0.0], "chst": [0]},
                          {"label": "B", "D": [0.0], "dens": [0.0], "chst": [0]}],
              "reactions": [{"label": None, "sub": {"A": 1}, "prod": {"B": n_}, "kf": [kdec], "kr": [0.0]}],
              "space": {"type": "grid", "w": nc_, "h": 1, "d": 1, "bc": ["reflecting"] * 3, "cell_env": [0] * nc_, "vol": vol},
              "state": [float(int(F / kdt))] + [float(rs.randint(0, 1000))] * (nc_ - 1) + [float(rs.randint(0, 50))] * nc_,
              "chem": None}
    dtg = kdt / kdec
    sp_g = {"kind": "tauleap", "dt": dtg, "t_sample": [0.0, 2.5 * dtg, 4.5 * dtg], "t_max": None, "policy": "on_iteration",
            "interval": dtg, "seed": rk.bits(31), "isp": "none", "ongrid": False, "steps": 5}
    return rerender_plain({"phys": {"spec": spec_g, "sp": sp_g, "kind": "tauleap"}})


def blowup_entry(rs, rk):
    """tau-leap script of an autocatalytic network (2 A -> 3 A): the population blows up within a few steps, per-step
    firing numbers leave every integer range, amounts become infinite - and every call still returns"""
    vol = (rs.loguniform(0.5, 2.0) * 1e-6) ** 3
    nc_ = rs.choice([1, 2])
    x0 = float(rs.randint(4, 20))
    kdt = rs.uniform(0.1, 0.5)               # k/V * dt per pair
    dtb = rs.loguniform(0.01, 1.0)
    kf = kdt / dtb * vol
    spec_b = {"envs": ["cyt"],
              "species": [{"label": "A", "D": [rs.loguniform(0.02, 0.5) * 1e-12 if nc_ > 1 else 0.0], "dens": [0.0], "chst": [0]}],
              "reactions": [{"label": None, "sub": {"A": 2}, "prod": {"A": 3}, "kf": [kf], "kr": [0.0]}],
              "space": {"type": "grid", "w": nc_, "h": 1, "d": 1, "bc": ["reflecting"] * 3, "cell_env": [0] * nc_, "vol": vol},
              "state": [x0] * nc_, "chem": None}
    nst = rs.randint(25, 60)
    sp_b = {"kind": "tauleap", "dt": dtb, "t_sample": [0.0, (nst - 0.5) * dtb], "t_max": None, "policy": rs.choice(["on_iteration", "on_t_sample"]),
            "interval": dtb, "seed": rk.bits(31), "isp": "none", "ongrid": False, "steps": nst}
    return rerender_plain({"phys": {"spec": spec_b, "sp": sp_b, "kind": "tauleap"}})


def scale_entry(rs, ru, rk, kind, what, steps=(2, 4)):
    """inputs at scales the ordinary generator never reaches: 33-70 species ("species"), a grid of 4100-5000 cells
    ("cells4k") or of more than 32767 cells ("cells33k"), with two environments in use and some chemostat flags"""
    if what == "species":
        p = dict(n_species=(33, 70), n_reactions=(2, 5), max_cells=4, max_dim=3, graph_nodes=(1, 3), graph_edges=(0, 3),
                 max_order=2, chem="mixed", n_mol=(5.0, 60.0), integer_state=True, state="explicit", n_envs=(1, 2),
                 allow_len1_periodic=False)   # (a periodic axis of length 1 makes a cell its own neighbour: C07's variance model excludes it)
        spec = gen.gen_spec(rs, p)
        labels = [x["label"] for x in spec["species"]]
        hi = labels[32:]
        nenv = len(spec["envs"])
        from ..models import Model
        m = Model(spec)
        ctyp = max(1.0, float(abs(m.x0).mean())) / float(m.V.mean())
        # reactions that touch species of index >= 32 (and one that does not)
        a, b = rs.choice(hi), rs.choice(labels[:31])
        extra = [{"label": None, "sub": {a: 1}, "prod": {rs.choice(hi): 1}, "kf": [rs.loguniform(0.1, 1.0)] * nenv, "kr": [0.0] * nenv},
                 {"label": None, "sub": {a: 1, b: 1}, "prod": {rs.choice(labels): 1},
                  "kf": [rs.loguniform(0.05, 0.5) / ctyp] * nenv, "kr": [0.0] * nenv}]
        spec["reactions"] = (spec["reactions"] + extra)[-5:]
        # flags on a low and on a high index
        ch = [0] * (m.ns * m.nc)
        for k in (rs.randint(0, 31), rs.randint(32, m.ns - 1), rs.randint(0, m.ns - 1)):
            ch[k * m.nc + rs.randint(0, m.nc - 1)] = 1
        spec["chem"] = ch
        return make_script_entry(rs.sub("e"), ru, rk, kind, None, {"steps": steps, "p_seed": 1.0, "policy": "on_iteration",
                                                                    "isp": "none", "p_explicit_tmax": 1.0, "nreq": (1, 2)},
                                 rich=False, spec=spec)
    if what == "cells4k":
        dims = rs.choice([[65, 64, 1], [17, 16, 16], [4200, 1, 1], [41, 10, 11]])
    elif what == "grid3d":
        # genuinely three-dimensional grids with unequal sides (every axis at least 3 cells long)
        dims = rs.choice([[5, 3, 3], [3, 4, 3], [7, 4, 3], [4, 3, 5], [6, 5, 4], [3, 5, 4]])
    else:
        dims = rs.choice([[200, 170, 1], [33000, 1, 1], [35, 32, 30]])
    nc = dims[0] * dims[1] * dims[2]
    vol = (rs.loguniform(0.5, 2.0) * 1e-6) ** 3
    h_ = vol ** (1.0 / 3.0)
    Dd = rs.loguniform(0.05, 1.0) * 1e-12
    cenv = [rs.randint(0, 1) for _ in range(nc)]
    st = [float(rs.randint(0, 40)) for _ in range(nc)]
    ch = [0] * nc
    for _ in range(max(3, nc // 500) if what != "grid3d" else rs.randint(0, 2)):
        ch[rs.randint(0, nc - 1)] = 1
    kdec = rs.loguniform(0.02, 0.2) * Dd / (h_ * h_)
    spec = {"envs": ["cyt", "mem"],
            "species": [{"label": "A", "D": [Dd, Dd * rs.uniform(0.1, 0.6)], "dens": [0.0, 0.0], "chst": [0, 0]}],
            "reactions": [{"label": None, "sub": {"A": 1}, "prod": {}, "kf": [kdec, 0.0], "kr": [0.0, 0.0]}],
            "space": {"type": "grid", "w": dims[0], "h": dims[1], "d": dims[2],
                      "bc": [rs.choice(["reflecting", "periodical"]) if dims[k] > 2 else "reflecting" for k in range(3)],
                      "cell_env": cenv, "vol": vol},
            "state": st, "chem": ch}
    nst = rs.randint(*steps)
    dt = rs.uniform(0.02, 0.1) * h_ * h_ / Dd
    if kind == "gillespie":
        # ~nst events in total
        a0 = sum(st) * (6 * Dd / (h_ * h_) + kdec)
        dt = 1.0 / max(a0, 1e-300)
    sp = {"kind": kind, "dt": dt, "t_sample": [0.0, (nst - 0.5) * dt], "t_max": None, "policy": "on_iteration", "interval": dt,
          "seed": rk.bits(31), "isp": "none", "ongrid": False, "steps": nst}
    return rerender_plain({"phys": {"spec": spec, "sp": sp, "kind": kind}})
