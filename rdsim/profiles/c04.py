"""C04 -- physical results do not depend on the units used to state or report them.

Twin episodes: one physical spec, 2-4 independent renderings (units systems drawn at every nesting level, bare numbers
or explicit-unit strings, one rendering with every number written with explicit units under scrambled declarations,
different script = output units), each built through the real *_from_dict readers and run on the Euler engine with
the same physical time step. Oracles: same initial state and chemostat map, same rate of change (co-observer), same
trajectory in SI, each equal to the reference Euler model."""
import numpy as np

from .. import gen, si, traj
from ..models import Model
from ..prng import Stream
from . import common as C
from .c01 import check_kinetics

ID = "C04"
LEVEL = "exploration"

SPEC_P = dict(n_species=(1, 4), n_reactions=(0, 3), max_order=3, max_cells=8, graph_nodes=(1, 5), graph_edges=(0, 6),
              n_mol=(1.0, 1000.0), templates=0.3)


def n_cases(tier):
    return 1500 if tier == "quick" else 40000


def timeout(tier):
    return 20.0 if tier == "quick" else 120.0


def generate(seed, tier, index):
    base = Stream(ID, seed, tier, index)
    rs, rk, rf = base.sub("spec"), base.sub("script"), base.sub("sched")
    spec = None
    for attempt in range(30):
        spec = gen.gen_spec(rs.sub("try", attempt), SPEC_P)
        sp = gen.gen_script(rk.sub(attempt), spec, "euler", {"steps": (3, 25), "isp": "auto", "p_ongrid": 0.0,
                                                            "policy": rk.choice(["on_t_sample", "on_iteration", "on_interval"])})
        nr = rf.randint(2, 4)
        uss = []
        ok = True
        for r in range(nr):
            ru = base.sub("units", attempt, r)
            us = gen.draw_us(ru)
            if not gen.boundary_numbers_ok(spec, us):
                ok = False
                break
            uss.append(us)
        if ok:
            break
    scripts = []
    eps = []
    coobs = rf.chance(0.3) and Model(spec).ns * Model(spec).nc <= 8
    entries = None
    ac = False
    if coobs:
        m = Model(spec)
        entries = [[rf.randint(0, m.ns - 1), rf.randint(0, m.nc - 1)] for _ in range(2)]
        if rf.chance(0.5):
            entries = "all"         # the whole-state function, reported in each rendering's own choice of units
        ac = rf.chance(0.5)         # with the chemostat mask applied (the default of the API)
    setst = None
    if rf.chance(0.15):
        # one entry of the state is set by hand with a plain number (read in the system's own units) in every rendering
        m_ = Model(spec)
        setst = [rf.randint(0, m_.ns - 1), rf.randint(0, m_.nc - 1), float(rf.randint(1, int(1.5 * float(abs(m_.x0).max())) + 2))]
        spec = dict(spec)
        spec["state"] = [float(v) for v in m_.x0.ravel()]
        spec["state"][setst[0] * m_.nc + setst[1]] = setst[2]
    cg = None
    sps = spec["space"]
    if sps["type"] == "grid" and all(b == "reflecting" for b in sps["bc"]) and rf.chance(0.4):
        # the same run on a coarse-grained copy of the system (identity map, pairs of cells, or the last cell dropped):
        # its result, too, is the same physical trajectory under every rendering
        ncg = sps["w"] * sps["h"] * sps["d"]
        cg = list(range(ncg))
        if len(set(sps["cell_env"])) == 1 and ncg >= 2 and rf.chance(0.5):
            cg = [i // 2 for i in range(ncg)]
        elif ncg >= 2 and rf.chance(0.3):
            cg = list(range(ncg - 1)) + [-1]
    for r in range(nr):
        ru = base.sub("render", r)
        us = uss[r]
        style = "explicit" if r == 1 else ("plain" if (r == 0 and rf.chance(0.3)) else "rich")
        if style == "plain":
            R = gen.Renderer(ru, rich=False)
            us = dict(si.DEFAULT_US)
            sysd, pus, info = R.system(spec, parent_eff=dict(si.DEFAULT_US))
            kw = gen.render_script(ru, sp, us, rich=False)
        elif style == "explicit":
            R = gen.Renderer(ru, rich=True, explicit_p=1.0)
            sysd, pus, info = R.system(spec)
            kw = gen.render_script(ru, sp, us, rich=True, explicit_p=1.0)
        else:
            R = gen.Renderer(ru, rich=True)
            sysd, pus, info = R.system(spec)
            if rf.chance(0.25) and gen.boundary_numbers_ok(spec, info["sys_eff"]):
                # the script is written (and reports) in the very units system the system object declares for itself,
                # while network, species and space may declare others
                us = dict(info["sys_eff"])
                style = "rich+script-in-system-units"
            kw = gen.render_script(ru, sp, us, rich=True)
        if r >= 2 and rf.chance(0.5):
            # same rendering as #0, other output units: only the scale of the numbers may change
            sysd, pus = scripts[0]["system"], scripts[0]["parent_us"]
            style = "same-as-0-other-output-units"
        ent = {"system": sysd, "parent_us": pus, "script": kw,
               "phys": {"spec": spec, "sp": sp, "us": us, "eu": gen.engine_units(us, "euler"), "kind": "euler",
                        "style": style}}
        if r >= 1 and rf.chance(0.25):
            # the script is constructed in one units system and switched to another before it is run
            for attempt2 in range(10):
                us2 = gen.draw_us(base.sub("post", r, attempt2))
                if gen.boundary_numbers_ok(spec, us2):
                    ent["post_units"] = us2
                    ent["phys"]["us"] = us2
                    ent["phys"]["eu"] = gen.engine_units(us2, "euler")
                    ent["phys"]["style"] = style + "+units-reassigned"
                    break
        scripts.append(ent)
        ops = ([["set_state_si"] + setst] if setst else []) + [["sysinfo"], ["setup"], ["observe"]]
        if coobs:
            ops.append(["kinetics", entries, ac, gen.draw_us(ru)])
        ops += [["drive", [["iterate"], ["observe"]], C.fixed_steps_needed(sp) + 3], ["output"], ["finalize"]]
        if cg is not None:
            ops += [["simulate_cg", {"slices": [3, 2], "ms": 1000}, cg]]
        eps.append({"obj": r % 2, "kind": "euler", "via": rf.choice(["LibRDEngine", "factory"]), "script": r, "ops": ops})
    if rf.chance(0.2):
        # earlier in the process the caller ran the same model on a molecule-counting engine, with a script written in the
        # units system of one of the renderings (the caller holds ONE UnitsSystem object per distinct units system): the
        # engine works in molecules internally, the caller's units object stays what it is
        import copy
        r0 = rf.randint(0, nr - 1)
        w = copy.deepcopy(scripts[r0])
        w.pop("post_units", None)
        w["phys"]["kind"] = "tauleap"
        w["phys"]["eu"] = gen.engine_units(w["phys"]["us"], "tauleap")
        w["script"]["units_system"] = dict(scripts[r0].get("post_units") or scripts[r0]["script"]["units_system"])
        scripts.append(w)
        eps.insert(0, {"obj": 2, "kind": "tauleap", "via": "LibRDEngine", "script": len(scripts) - 1,
                       "ops": [["setup"], ["iterate_n", 2], ["finalize"]], "warm": True})
    return {"format": 1, "property": ID, "seed": seed, "tier": tier, "index": index, "build": "plain",
            "scripts": scripts, "lifetimes": [{"pyseed": 1, "episodes": eps}],
            "meta": {"renderings": nr, "styles": [s["phys"]["style"] for s in scripts[:nr]], "coobs": coobs, "cg": cg is not None}}


def check(case, results):
    viol = []
    stats = {"cases": 1, "lifetimes": 1, "styles": {}}
    res = results[0]
    spec = case["scripts"][0]["phys"]["spec"]
    m = Model(spec)
    ref = None
    nontrivial = 0
    cg_ref = None
    for ev in sorted(res.events, key=lambda e_: (e_["e"], e_["i"])):
        if ev["op"] == "simulate_cg" and not ev.get("skipped"):
            ctxc = {"class": "violation", "lifetime": 0, "episode": ev["e"], "op": ev["i"]}
            if "exc" in ev:
                viol.append(dict(ctxc, oracle="C04.no-exception", detail=ev["exc"] + "\n" + ev.get("tb", "")))
                continue
            d_ = np.frombuffer(ev["data"], dtype=np.float64) * si.QUANTITY[ev["data_unit"]]
            t_ = np.frombuffer(ev["t"], dtype=np.float64) * si.TIME[ev["t_unit"]]
            stats["coarse_grained_runs"] = stats.get("coarse_grained_runs", 0) + 1
            if cg_ref is None:
                cg_ref = (d_, t_, ev["e"])
            elif d_.shape != cg_ref[0].shape or t_.shape != cg_ref[1].shape or (d_.size and (
                    np.any(np.abs(d_ - cg_ref[0]) > 1e-9 * (np.abs(d_).max() + 1e-300)) or
                    np.any(np.abs(t_ - cg_ref[1]) > 1e-9 * (np.abs(t_).max() + 1e-300)))):
                viol.append(dict(ctxc, oracle="C04.same-coarse-grained-trajectory",
                                 detail="the coarse-grained run of rendering #%d differs (in SI) from that of rendering #%d: "
                                        "max |difference| %r molecules" % (ev["e"], cg_ref[2],
                                                                          float(np.abs(d_ - cg_ref[0]).max()) if d_.shape == cg_ref[0].shape else None)))
    for ei, ep in enumerate(case["lifetimes"][0]["episodes"]):
        if ep.get("warm"):
            stats["prehistory_stochastic_run_in_the_same_units_object"] = 1
            continue
        entry = case["scripts"][ep["script"]]
        phys = entry["phys"]
        stats["styles"][phys["style"]] = stats["styles"].get(phys["style"], 0) + 1
        ctx = {"class": "violation", "lifetime": 0, "episode": ei}
        v = []
        bad = [ev for ev in res.events if ev["e"] == ei and "exc" in ev]
        for ev in bad:
            v.append(dict(oracle="C04.no-exception", op=ev["i"], detail=ev["exc"] + "\n" + ev.get("tb", "")))
        evs = {ev["i"]: ev for ev in res.events if ev["e"] == ei and "exc" not in ev and not ev.get("skipped")}
        si_list = [e_ for e_ in evs.values() if e_["op"] == "sysinfo"]
        if si_list:
            si_ev = si_list[0]
            fq = si.QUANTITY[si_ev["state_q"]]
            st = np.frombuffer(si_ev["state"], dtype=np.float64).reshape(m.ns, m.nc) * fq
            if si_ev["state_dim"] != [0, 0, 1]:
                v.append(dict(oracle="C04.initial-state", detail="state dimension %s" % si_ev["state_dim"]))
            elif np.any(np.abs(st - m.x0) > 1e-12 * np.abs(m.x0) + 1e-300):
                d = np.argwhere(np.abs(st - m.x0) > 1e-12 * np.abs(m.x0) + 1e-300)[0]
                v.append(dict(oracle="C04.initial-state",
                              detail="rendering '%s': RDSystem.state entry (species %d, cell %d) is %r molecules, the physical "
                                     "description says %r" % (phys["style"], d[0], d[1], st[d[0], d[1]], m.x0[d[0], d[1]])))
            if [int(bool(c)) for c in si_ev["chem"]] != [int(c) for c in m.chem.ravel()]:
                v.append(dict(oracle="C04.chemostat-map", detail="rendering '%s': chemostat map differs" % phys["style"]))
            stats["state_comparisons"] = stats.get("state_comparisons", 0) + 1
        h = traj.extract(case, 0, ei, res, m.ns, m.nc)
        if h.problems:
            viol.append({"class": "harness", "oracle": "harness", "detail": "; ".join(h.problems)})
            continue
        if h.setup is not None and h.obs0 is not None and not v:
            traj.check_script_numbers(h.setup, phys, v, "C04")
            traj.euler_oracle(h, m, phys, v, stats, "C04")
            for ev in res.events:
                if ev["e"] == ei and ev["op"] == "kinetics" and "exc" not in ev and not ev.get("skipped"):
                    check_kinetics(ev, ep["ops"][ev["i"]], m, phys, v, stats, "C04", masked=bool(ep["ops"][ev["i"]][2]))
            if h.outputs and not v:
                # (shape, units and accessor facts of what the caller receives, in this rendering's output units)
                traj.output_oracle(h, lambda apos: None, phys, m.ns, m.nc, v, stats, "C04")
            if h.outputs and not v:
                out = h.outputs[-1][1]
                us = phys["us"]
                n = out["n"]
                T = np.frombuffer(out["t"], dtype=np.float64) * si.factor(us, si.DIM_TIME)
                D = np.frombuffer(out["data"], dtype=np.float64).reshape(n, m.ns, m.nc) * si.factor(us, si.DIM_QUANTITY)
                nsteps = sum(1 for a in h.actions if a[0] == "iterate")
                if ref is None:
                    ref = (T, D, nsteps, phys["style"])
                else:
                    T0, D0, n0, style0 = ref
                    stats["twin_comparisons"] = stats.get("twin_comparisons", 0) + 1
                    if len(T) != len(T0) or nsteps != n0:
                        v.append(dict(oracle="C04.same-trajectory",
                                      detail="renderings '%s' and '%s' of the same physics give %d vs %d samples (%d vs %d steps)" % (
                                          style0, phys["style"], len(T0), len(T), n0, nsteps)))
                    else:
                        scale = np.abs(D0).max(axis=0) + np.abs(D).max(axis=0) if n else 0
                        tolD = 1e-10 * (1 + nsteps) * (scale + 1e-300)
                        if n and (np.any(np.abs(T - T0) > 1e-11 * (np.abs(T0) + sp_dt(phys))) or
                                  np.any(np.abs(D - D0) > tolD[None, :, :])):
                            v.append(dict(oracle="C04.same-trajectory",
                                          detail="renderings '%s' and '%s' of the same physics give different trajectories in SI "
                                                 "(max relative data difference %.3g)" % (
                                                     style0, phys["style"],
                                                     float((np.abs(D - D0) / (scale[None] + 1e-300)).max()))))
                        elif nsteps >= 2:
                            nontrivial = 1
        for x in v:
            x.update(ctx)
        viol.extend(v)
    stats["nontrivial"] = nontrivial
    stats["engine_steps"] = stats.get("euler_steps_checked", 0)
    return viol, stats


def sp_dt(phys):
    return phys["sp"]["dt"]


def describe(case):
    return {"styles": case["meta"]["styles"],
            "renderings": [{"system": s["system"], "script": s["script"]} for s in case["scripts"][:2]]}


RULE = ("case = one physical system + script rendered 2-4 times (plain default units / rich: units systems drawn among all "
        "11x10x10 at script, system, network, species, reaction, space, node and edge level with inherit/default/explicit and "
        "explicit-unit strings incl. litre and molar families / everything written with explicit units under scrambled "
        "declarations / same description with other output units), each run as an observed Euler episode; non-trivial = at least "
        "one pair of trajectories compared in SI over >= 2 steps")
ASSUMPTIONS = ["twin trajectories are compared with tolerance 1e-10*(1+steps)*scale; each is also compared step by step with the "
               "reference Euler model at 1e-11",
               "magnitudes are kept within [1e-200, 1e200] in engine units (sub-normal intermediates would cost precision)"]
