"""C11 -- the native engine is memory-safe on every valid script.

The lifecycle histories of C10 (sequential configuration only), widened to the degenerate shapes the statement lists,
run on an AddressSanitizer + UndefinedBehaviorSanitizer + _GLIBCXX_ASSERTIONS build of the working tree. Every case
runs three times: plain build, sanitizer build with allocator fill byte A, sanitizer build with fill byte B; any
sanitizer report is a violation, and the three event logs must be identical (a result that depends on uninitialised
heap or on a freed marshalling buffer cannot satisfy that)."""
import json
import os
import pickle
import time

from .. import build, campaign, runner
from ..prng import Stream
from . import c10
from . import common as C

ID = "C11"
LEVEL = "exploration"

SPEC_P = dict(n_species=(1, 4), n_reactions=(0, 3), max_order=3, max_cells=12, graph_nodes=(1, 6), graph_edges=(0, 9),
              allow_self_loops=True, allow_parallel=True, allow_len1_periodic=True, allow_len2_periodic=True,
              n_mol=(0.02, 300.0), state="mixed", p_zero_D=0.2, p_zero_k=0.2)
SCRIPT_P = {"steps": (1, 25), "allow_empty_ts": True, "p_seed": 1.0, "courant": (0.01, 0.6), "tauleap_overshoot": 0.4, "p_tiny_interval": 0.08}
FILLS = (0x00, 0xbe)


def build_kinds(tier):
    return ["plain", "san"]


def n_cases(tier):
    return 160 if tier == "quick" else 3000


def timeout(tier):
    return 60.0 if tier == "quick" else 180.0


def generate(seed, tier, index):
    case = c10.generate(seed, tier, index, pid=ID, spec_p=SPEC_P, p_overlap=0.0, script_p=SCRIPT_P)
    # add set-up batches over the init-processing modes to the history (C14's surface on the sanitizer build)
    rf = Stream(ID, seed, tier, index, "extra")
    lt = case["lifetimes"][-1]
    if rf.chance(0.3) and lt["episodes"]:
        j = rf.randint(0, len(case["scripts"]) - 1)
        lt["episodes"].append({"obj": 2, "new": True, "kind": case["meta"]["kinds"][j], "via": "LibRDEngine", "script": j,
                               "ops": [["setup_batch", [rf.bits(31) for _ in range(rf.randint(1, 6))]]]})
    if rf.chance(0.35) and lt["episodes"]:
        # the library's own driver loop (set-up, run slices, output, finalize) with its progress line switched on
        j = rf.randint(0, len(case["scripts"]) - 1)
        lt["episodes"].append({"obj": 2, "new": True, "kind": case["meta"]["kinds"][j], "via": rf.choice(["LibRDEngine", "factory"]),
                               "script": j, "ops": [["simulate_script", {"slices": [rf.randint(1, 5), rf.randint(1, 5)], "ms": 1000,
                                                                           "progress": rf.chance(0.7)}]]})
    return case


def continue_after(case, results):
    return c10.continue_after(case, results)


def check(case, results):
    """only the classification of crashes/timeouts (generic) matters here; the lifecycle oracles belong to C10"""
    stats = {"cases": 1, "lifetimes": len(results), "faults": {f: 1 for f in case["meta"]["faults"]}}
    nops = sum(len(r.events) for r in results)
    stats["ops_executed"] = nops
    stats["nontrivial"] = 1 if nops >= 6 else 0
    shapes = {}
    for s in case["scripts"]:
        sp = s["phys"]["spec"]["space"]
        if sp["type"] == "grid":
            if sp["w"] * sp["h"] * sp["d"] == 1:
                shapes["grid_1x1x1"] = 1
            for L, b in zip((sp["w"], sp["h"], sp["d"]), sp["bc"]):
                if b == "periodical" and L <= 2:
                    shapes["periodic_len_%d" % L] = 1
        else:
            deg = [0] * len(sp["nodes"])
            seen = set()
            for e in sp["edges"]:
                if e["i"] == e["j"]:
                    shapes["self_loop"] = 1
                k = (min(e["i"], e["j"]), max(e["i"], e["j"]))
                if k in seen:
                    shapes["parallel_edge"] = 1
                seen.add(k)
                deg[e["i"]] += 1
                deg[e["j"]] += 1
            if 0 in deg:
                shapes["isolated_node"] = 1
        if not s["phys"]["sp"]["t_sample"]:
            shapes["empty_request_list"] = 1
        shapes["isp_" + s["phys"]["sp"]["isp"]] = 1
        shapes["engine_" + s["phys"]["kind"]] = 1
        shapes["policy_" + s["phys"]["sp"]["policy"]] = 1
    stats["shapes"] = shapes
    for r in results:
        for ev in r.events:
            if ev.get("op") == "setup" and ev.get("status"):
                stats["setup_hit_loopcap"] = stats.get("setup_hit_loopcap", 0) + 1
    return [], stats


def _collect(path):
    try:
        return pickle.load(open(path, "rb"))
    except Exception:
        return None


def run_check(a, tier, seed, libs, known):
    t0 = time.time()
    n = a.cases if a.cases is not None else n_cases(tier)
    work = os.path.join(build.WORK, "c11-%d" % os.getpid())
    os.makedirs(work, exist_ok=True)
    jobs = []
    common = ["--pid", ID, "--tier", tier, "--seed", str(seed), "--start", str(a.start), "--count", str(n)]
    # the three environments run one after the other on all cores (sanitizer processes are memory hungry)
    outs = {}
    for name, env, bk in (("plain", campaign.plain_env(), "plain"),
                          ("sanA", campaign.san_env(FILLS[0]), "san"),
                          ("sanB", campaign.san_env(FILLS[1]), "san")):
        out = os.path.join(work, name + ".pkl")
        p = campaign.spawn(common + ["--build", bk], env, out, wall=7000 if tier == "thorough" else 800)
        rc = p.wait()
        outs[name] = _collect(out)
        if outs[name] is None:
            log = open(out + ".log").read()[-3000:]
            print("HARNESS-ERROR campaign %s failed (rc=%s)\n%s" % (name, rc, log))
            return 2
    plain = {r["index"]: r for r in outs["plain"]["recs"]}
    sana = {r["index"]: r for r in outs["sanA"]["recs"]}
    sanb = {r["index"]: r for r in outs["sanB"]["recs"]}
    prof = runner.profile(ID)
    recs = []
    for idx in sorted(plain):
        rp, ra, rb = plain[idx], sana.get(idx), sanb.get(idx)
        rec = {"index": idx, "viol": [], "stats": rp["stats"], "wall": rp["wall"], "digest": rp["digest"],
               "sample": rp.get("sample")}
        case = None
        for nm, r in (("plain", rp), ("san fill 0x%02x" % FILLS[0], ra), ("san fill 0x%02x" % FILLS[1], rb)):
            if r is None:
                continue
            for v in r["viol"]:
                v = dict(v)
                v["detail"] = "[%s build] %s" % (nm, v.get("detail"))
                if v.get("class") == "crash":
                    v["oracle"] = "C11.sanitizer" if nm != "plain" else "C11.no-crash"
                rec["viol"].append(v)
                case = r.get("case")
                if case is not None and nm != "plain":
                    case = dict(case, build="san")
        if ra is not None and rb is not None and not rec["viol"]:
            if ra["digest"] != rb["digest"]:
                rec["viol"].append({"class": "violation", "oracle": "C11.poison-twins", "lifetime": None,
                                    "detail": "event logs differ between allocator fill bytes 0x%02x and 0x%02x: a result depends "
                                              "on uninitialised or freed memory" % FILLS})
            elif ra["digest"] != rp["digest"]:
                rec["viol"].append({"class": "violation", "oracle": "C11.build-twins", "lifetime": None,
                                    "detail": "event logs differ between the plain and the sanitizer build"})
            if rec["viol"]:
                case = dict(prof.generate(seed, tier, idx), build="san")
        if rec["viol"]:
            rec["case"] = case if case is not None else prof.generate(seed, tier, idx)
        recs.append(rec)
    from .. import checkcmd
    a.no_shrink = True if not hasattr(a, "no_shrink") else a.no_shrink
    rc = finish_c11(tier, seed, prof, recs, libs, known, t0, a,
                    {"environments": ["plain g++ -O2", "clang ASan+UBSan+_GLIBCXX_ASSERTIONS fill 0x%02x" % FILLS[0],
                                      "clang ASan+UBSan+_GLIBCXX_ASSERTIONS fill 0x%02x" % FILLS[1]],
                     "san_wall_s": [outs["sanA"]["wall"], outs["sanB"]["wall"]],
                     "twin_comparisons": sum(1 for i in plain if i in sana and i in sanb)})
    for f in os.listdir(work):
        try:
            os.unlink(os.path.join(work, f))
        except OSError:
            pass
    try:
        os.rmdir(work)
    except OSError:
        pass
    return rc


def finish_c11(tier, seed, prof, recs, libs, known, t0, a, extra):
    """like checkcmd.finish, but replays go through a sanitizer-environment subprocess"""
    from .. import checkcmd
    total = {}
    samples = []
    n_viol = 0
    exit_code = 0
    reported = set()
    for r in recs:
        runner.merge_stats(total, r["stats"])
        if r.get("sample") is not None and len(samples) < 3:
            samples.append(r["sample"])
        hv = [v for v in r["viol"] if v.get("class") == "harness"]
        if hv:
            print("HARNESS-ERROR case %d: %s" % (r["index"], str(hv[0]["detail"])[-3000:]))
            return 2
        for v in r["viol"]:
            n_viol += 1
            key = v.get("oracle")
            if key in reported or len(reported) >= 3:
                continue
            reported.add(key)
            path = runner.write_replay(ID, seed, r["case"], v, r["digest"])
            ok = replay_san(path)
            print("VIOLATION property=%s replay=%s" % (ID, path))
            print("  oracle=%s class=%s case=%d reproduced_on_replay=%s\n  %s" % (
                v.get("oracle"), v.get("class"), r["index"], ok, str(v.get("detail"))[:2500].replace("\n", "\n  ")))
            exit_code = 1
    wall = time.time() - t0
    nontriv = int(total.get("nontrivial", 0))
    cov = {"evaluations": len(recs), "distinct_nontrivial": nontriv, "rule": RULE, "samples": samples,
           "simulated_lifetimes": 3 * (total.get("lifetimes") or 0), "ops_executed_per_environment": total.get("ops_executed"),
           "lifetimes_per_hour": int(3600 * 3 * (total.get("lifetimes") or 0) / max(wall, 1e-9)),
           "faults_fired": total.get("faults", {}), "shapes_reached": total.get("shapes", {}),
           "distinct_op_sequences": len(total.get("op_sequences", ())),
           "simulated_engine_seconds_SI": total.get("simulated_engine_seconds"),
           "probes": {k: v for k, v in total.items() if k in ("setup_hit_loopcap",)},
           "real_components": ["strengths Python front end", "native engine built from /repo working tree with clang "
                               "-fsanitize=address,undefined -D_GLIBCXX_ASSERTIONS (and g++ -O2 for the plain twin)"],
           "stubbed_components": ["wall clock inside engineexport_run (virtual, hook H1)"]}
    cov.update(extra)
    if not a.no_evidence:
        runner.write_evidence(ID, tier, seed, LEVEL, cov, wall, n_viol, ASSUMPTIONS)
    print("%s %s seed=%d: %d cases x 3 environments, %d non-trivial, %d violations, %.1fs" % (
        ID, tier, seed, len(recs), nontriv, n_viol, wall))
    return exit_code


def replay_san(path, fill=FILLS[0]):
    """re-executes a replay file under the sanitizer environment; True if a violation of the same oracle shows again"""
    doc = json.load(open(path, encoding="utf-8"))
    out = path + ".replay.pkl"
    bk = doc["case"].get("build", "plain")
    env = campaign.san_env(fill) if bk == "san" else campaign.plain_env()
    p = campaign.spawn(["--replay", path, "--build", bk], env, out, wall=600)
    p.wait()
    res = _collect(out)
    for f in (out, out + ".log"):
        try:
            os.unlink(f)
        except OSError:
            pass
    if res is None:
        return False
    want = doc["violation"]
    if want.get("oracle") in ("C11.poison-twins", "C11.build-twins"):
        out2 = path + ".replay2.pkl"
        env2 = campaign.san_env(FILLS[1]) if want["oracle"] == "C11.poison-twins" else campaign.plain_env()
        bk2 = "san" if want["oracle"] == "C11.poison-twins" else "plain"
        p = campaign.spawn(["--replay", path, "--build", bk2], env2, out2, wall=600)
        p.wait()
        res2 = _collect(out2)
        for f in (out2, out2 + ".log"):
            try:
                os.unlink(f)
            except OSError:
                pass
        return res2 is not None and res2["digest"] != res["digest"]
    for v in res["viol"]:
        if v.get("class") == want.get("class"):
            return True
    return False


def describe(case):
    return c10.describe(case)


RULE = ("case = C10's sequential lifecycle history (1-3 scripts, 1-3 engine objects, up to 6 set-ups, finalize at any point and "
        "repeatedly, abandon, re-set-up, calls after completion, degenerate slices) over specs widened to 1x1x1 grids, periodic "
        "axes of length 1 and 2, graphs with isolated nodes, self-loops and parallel edges, empty request lists with explicit "
        "t_max, all processing modes, tau-leap regimes that overshoot below zero; each case runs in three environments "
        "(plain, sanitizer fill A, sanitizer fill B); non-trivial = at least 6 ops executed")
ASSUMPTIONS = ["AddressSanitizer/UBSan/libstdc++ assertions see the engine only (Python and ctypes are not instrumented); "
               "MemorySanitizer is not available, allocator-fill twins are the substitute for uninitialised reads",
               "molecule counts stay below 1e6 (the engine draws poisson_distribution<int>)",
               "overlap histories (two engine objects open at once) are excluded here: under KF-1 they use freed memory by "
               "construction (see C10)"]
