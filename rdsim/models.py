"""Reference models. They read the *physical spec* (SI doubles, molecule counts) and never import strengths.

spec = {
  "envs": [label...],
  "species": [{"label", "D": [SI m2/s per env], "dens": [molecules/m3 per env], "chst": [0/1 per env]}],
  "reactions": [{"label", "sub": {label: n}, "prod": {label: n}, "kf": [SI per env], "kr": [SI per env]}],
  "space": {"type": "grid", "w","h","d", "bc": [3 x "reflecting"|"periodical"], "cell_env": [...], "vol": SI m3}
         | {"type": "graph", "nodes": [{"vol": SI, "env": i}], "edges": [{"i","j","S": SI m2,"dist": SI m}]},
  "state": None | [molecules, species-major],      # None -> density x volume
  "chem":  None | [0/1, species-major],            # None -> species flag of the cell's environment
}
"""
import math
from fractions import Fraction

import numpy as np


def grid_neighbor(w, h, d, bc, i, direction):
    x = i % w
    y = (i % (w * h)) // w
    z = i // (w * h)
    if direction == 0:
        x += 1
    elif direction == 1:
        x -= 1
    elif direction == 2:
        y += 1
    elif direction == 3:
        y -= 1
    elif direction == 4:
        z += 1
    else:
        z -= 1
    if bc[0] == "periodical":
        x %= w
    if bc[1] == "periodical":
        y %= h
    if bc[2] == "periodical":
        z %= d
    if 0 <= x < w and 0 <= y < h and 0 <= z < d:
        return z * w * h + y * w + x
    return -1


class Model:
    def __init__(self, spec):
        self.spec = spec
        sp = spec["space"]
        self.labels = [s["label"] for s in spec["species"]]
        self.ns = len(self.labels)
        self.nenv = len(spec["envs"])
        if sp["type"] == "grid":
            self.nc = sp["w"] * sp["h"] * sp["d"]
            self.V = np.full(self.nc, float(sp["vol"]))
            self.env = np.array(sp["cell_env"], dtype=int)
            hh = float(sp["vol"]) ** (1.0 / 3.0)
            faces = []
            for i in range(self.nc):
                for n in range(6):
                    j = grid_neighbor(sp["w"], sp["h"], sp["d"], sp["bc"], i, n)
                    if j >= 0:
                        faces.append((i, j, hh * hh, hh, n))
        else:
            self.nc = len(sp["nodes"])
            self.V = np.array([float(n["vol"]) for n in sp["nodes"]])
            self.env = np.array([int(n["env"]) for n in sp["nodes"]], dtype=int)
            faces = []
            for k, e in enumerate(sp["edges"]):
                faces.append((e["i"], e["j"], float(e["S"]), float(e["dist"]), k))
                faces.append((e["j"], e["i"], float(e["S"]), float(e["dist"]), k))
        self.faces = faces  # directed: (src i, neighbour j, S, dist, tag)
        self.h = self.V ** (1.0 / 3.0)
        # reaction halves
        halves = []
        for ri, r in enumerate(spec["reactions"]):
            sub = np.array([int(r["sub"].get(l, 0)) for l in self.labels])
            prod = np.array([int(r["prod"].get(l, 0)) for l in self.labels])
            halves.append((sub, prod, np.array(r["kf"], dtype=float), ri, 0))
            halves.append((prod, sub, np.array(r["kr"], dtype=float), ri, 1))
        self.halves = halves
        self.nh = len(halves)
        self.sub = np.array([h[0] for h in halves], dtype=int).reshape(self.nh, self.ns)
        self.net = np.array([h[1] - h[0] for h in halves], dtype=int).reshape(self.nh, self.ns)
        self.order = self.sub.sum(axis=1) if self.nh else np.zeros(0, dtype=int)
        # k per (half, cell)
        self.kcell = np.zeros((self.nh, self.nc))
        for a, hf in enumerate(halves):
            self.kcell[a, :] = hf[2][self.env]
        self.D = np.array([s["D"] for s in spec["species"]], dtype=float).reshape(self.ns, self.nenv)
        # face diffusivities per species: kd_out[s, f] = Dij*S/(V_i*dist)
        nf = len(faces)
        self.f_i = np.array([f[0] for f in faces], dtype=int)
        self.f_j = np.array([f[1] for f in faces], dtype=int)
        self.kd = np.zeros((self.ns, nf))
        for fi, (i, j, S, dist, _) in enumerate(faces):
            for s in range(self.ns):
                Di = self.D[s, self.env[i]]
                Dj = self.D[s, self.env[j]]
                if Di == 0 or Dj == 0:
                    Dij = 0.0
                else:
                    Dij = (self.h[i] + self.h[j]) / (self.h[i] / Di + self.h[j] / Dj)
                self.kd[s, fi] = Dij * S / (self.V[i] * dist)
        # state and chemostats (species-major flat -> [s, i])
        if spec.get("state") is None:
            x0 = np.zeros((self.ns, self.nc))
            for s, spc in enumerate(spec["species"]):
                dens = np.array(spc["dens"], dtype=float)
                x0[s, :] = dens[self.env] * self.V
        else:
            x0 = np.array(spec["state"], dtype=float).reshape(self.ns, self.nc)
        self.x0 = x0
        if spec.get("chem") is None:
            ch = np.zeros((self.ns, self.nc), dtype=int)
            for s, spc in enumerate(spec["species"]):
                c = np.array(spc["chst"], dtype=int)
                ch[s, :] = c[self.env]
        else:
            ch = np.array(spec["chem"], dtype=int).reshape(self.ns, self.nc)
        self.chem = ch
        self.free = (ch == 0)
        self.vpow = np.zeros((self.nh, self.nc))
        for a in range(self.nh):
            self.vpow[a, :] = self.V ** (1.0 - float(self.order[a]))

    # ---------------------------------------------------------------- M-law
    def rates(self, x):
        """reaction rates [half, cell] (molecules/s) for a state x[s, i] (molecules)"""
        r = self.kcell * self.vpow
        for a in range(self.nh):
            for s in range(self.ns):
                m = self.sub[a, s]
                if m:
                    r[a, :] = r[a, :] * x[s, :] ** m
        return r

    def f(self, x, mask=True, want_scale=False):
        """dx/dt [s, i] in molecules/s; scale = sum of |terms| (rounding yardstick)"""
        r = self.rates(x)
        out = np.zeros((self.ns, self.nc))
        scale = np.zeros((self.ns, self.nc))
        for a in range(self.nh):
            for s in range(self.ns):
                n = self.net[a, s]
                if n:
                    out[s, :] += n * r[a, :]
                    scale[s, :] += abs(n) * np.abs(r[a, :])
        if len(self.faces):
            for s in range(self.ns):
                outflow = x[s, self.f_i] * self.kd[s, :]          # leaves f_i, enters f_j
                np.add.at(out[s], self.f_i, -outflow)
                np.add.at(out[s], self.f_j, outflow)
                np.add.at(scale[s], self.f_i, np.abs(outflow))
                np.add.at(scale[s], self.f_j, np.abs(outflow))
        if mask:
            out = np.where(self.free, out, 0.0)
        if want_scale:
            return out, scale
        return out

    def euler_step(self, x, dt):
        return x + dt * self.f(x)

    # ---------------------------------------------------------------- M-events
    def reac_prop(self, x):
        """propensities of reaction halves [half, cell] for an integer state"""
        a = self.kcell * self.vpow
        for h in range(self.nh):
            for s in range(self.ns):
                m = self.sub[h, s]
                if m:
                    ff = np.ones(self.nc)
                    for q in range(m):
                        ff = ff * (x[s, :] - q)
                    ff = np.where(x[s, :] >= m, ff, 0.0)
                    a[h, :] = a[h, :] * ff
        return a

    def diff_prop(self, x):
        """propensities of moves [species, face]"""
        if not len(self.faces):
            return np.zeros((self.ns, 0))
        return x[:, self.f_i] * self.kd

    def a0(self, x):
        return float(self.reac_prop(x).sum() + self.diff_prop(x).sum())

    def reaction_effect(self, h, i):
        """masked effect of reaction half h in cell i as dict {(s,i): n}"""
        eff = {}
        for s in range(self.ns):
            n = int(self.net[h, s])
            if n and self.free[s, i]:
                eff[(s, i)] = n
        return eff

    def move_effect(self, s, i, j):
        eff = {}
        if i == j:
            return eff
        if self.free[s, i]:
            eff[(s, i)] = -1
        if self.free[s, j]:
            eff[(s, j)] = eff.get((s, j), 0) + 1
        return eff

    # ---------------------------------------------------------------- M-cons
    def conservation_vectors(self):
        """integer basis of {c : c . net[h] == 0 for all halves}, restricted to vectors that touch no species
        having any chemostated entry. Returned as list of integer lists."""
        ns = self.ns
        rows = [[Fraction(int(v)) for v in self.net[h]] for h in range(self.nh)]
        chem_species = [bool(self.chem[s].any()) for s in range(ns)]
        # constraint: c_s = 0 for chemostated species
        for s in range(ns):
            if chem_species[s]:
                row = [Fraction(0)] * ns
                row[s] = Fraction(1)
                rows.append(row)
        # null space of the row matrix by Gaussian elimination
        m = [r[:] for r in rows]
        piv = []
        rank = 0
        for col in range(ns):
            p = None
            for rr in range(rank, len(m)):
                if m[rr][col] != 0:
                    p = rr
                    break
            if p is None:
                continue
            m[rank], m[p] = m[p], m[rank]
            pv = m[rank][col]
            m[rank] = [v / pv for v in m[rank]]
            for rr in range(len(m)):
                if rr != rank and m[rr][col] != 0:
                    fct = m[rr][col]
                    m[rr] = [a - fct * b for a, b in zip(m[rr], m[rank])]
            piv.append(col)
            rank += 1
        free_cols = [c for c in range(ns) if c not in piv]
        basis = []
        for fc in free_cols:
            v = [Fraction(0)] * ns
            v[fc] = Fraction(1)
            for rr, pc in enumerate(piv):
                v[pc] = -m[rr][fc]
            den = 1
            for a in v:
                den = den * a.denominator // math.gcd(den, a.denominator)
            iv = [int(a * den) for a in v]
            g = 0
            for a in iv:
                g = math.gcd(g, abs(a))
            if g > 1:
                iv = [a // g for a in iv]
            basis.append(iv)
        return basis
