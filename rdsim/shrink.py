"""minimisation of failing cases (placeholder: identity until the passes are written)"""


def minimise(prof, case, v, libs, timeout):
    return case, v
