"""Minimisation of failing cases: every candidate is re-executed in fresh child processes and kept iff the same
oracle of the same class still fails. Passes: drop lifetimes, drop episodes, drop ops, simplify op arguments,
re-render in plain units, structural spec shrinking (on plain renderings). Budget: <= 300 executions or 90 s."""
import copy
import time

from . import runner
from .models import Model
from .profiles import common as C


class Budget:
    def __init__(self, runs=300, seconds=90.0):
        self.runs = runs
        self.deadline = time.time() + seconds
        self.used = 0

    def ok(self):
        return self.used < self.runs and time.time() < self.deadline


def _same(v, target):
    return v.get("oracle") == target[0] and v.get("class") == target[1]


def _droppable_lifetimes(prof, case):
    if hasattr(prof, "droppable_lifetimes"):
        return prof.droppable_lifetimes(case)
    pid = case.get("property")
    if pid == "C08":
        return list(range(1, len(case["lifetimes"])))
    return []


def _shrinkable_lifetimes(prof, case):
    """lifetimes whose episodes/ops may be removed"""
    pid = case.get("property")
    if pid in ("C10", "C11"):
        return [len(case["lifetimes"]) - 1]
    if pid == "C08":
        return list(range(1, len(case["lifetimes"])))
    if pid in ("C14",):
        return []
    return list(range(len(case["lifetimes"])))


def ddmin_list(items, test, budget, min_keep=0):
    """classic ddmin on a list; test(sublist) -> True if still failing"""
    n = 2
    cur = list(items)
    while len(cur) > min_keep and budget.ok():
        chunk = max(1, len(cur) // n)
        removed = False
        i = 0
        while i < len(cur) and budget.ok():
            cand = cur[:i] + cur[i + chunk:]
            if len(cand) >= min_keep and len(cand) < len(cur) and test(cand):
                cur = cand
                removed = True
            else:
                i += chunk
        if not removed:
            if chunk == 1:
                break
            n = min(len(cur), n * 2)
    return cur


def minimise(prof, case, v, libs, timeout, runs=300, seconds=90.0):
    target = (v.get("oracle"), v.get("class"))
    budget = Budget(runs, seconds)
    best_v = [v]

    def fails(c):
        budget.used += 1
        try:
            viol, _, _ = runner.evaluate(prof, c, libs, timeout)
        except Exception:
            return False
        for x in viol:
            if _same(x, target):
                best_v[0] = x
                return True
        return False

    cur = copy.deepcopy(case)
    # ---- 1. drop lifetimes
    drop = _droppable_lifetimes(prof, cur)
    if drop:
        keep_fixed = [i for i in range(len(cur["lifetimes"])) if i not in drop]

        def test_l(sub):
            c = copy.deepcopy(cur)
            idx = sorted(keep_fixed + sub)
            c["lifetimes"] = [cur["lifetimes"][i] for i in idx]
            return fails(c)
        kept = ddmin_list(drop, test_l, budget)
        idx = sorted(keep_fixed + kept)
        cur["lifetimes"] = [cur["lifetimes"][i] for i in idx]
    # ---- 2. drop episodes
    for li in _shrinkable_lifetimes(prof, cur):
        if li >= len(cur["lifetimes"]) or not budget.ok():
            continue
        eps = cur["lifetimes"][li]["episodes"]
        if len(eps) <= 1:
            continue

        def test_e(sub, li=li):
            c = copy.deepcopy(cur)
            c["lifetimes"][li]["episodes"] = sub
            return fails(c)
        cur["lifetimes"][li]["episodes"] = ddmin_list(eps, test_e, budget, min_keep=1)
    # ---- 3. drop ops inside episodes
    for li in _shrinkable_lifetimes(prof, cur):
        if li >= len(cur["lifetimes"]):
            continue
        for ei in range(len(cur["lifetimes"][li]["episodes"])):
            if not budget.ok():
                break
            ops = cur["lifetimes"][li]["episodes"][ei]["ops"]
            if len(ops) <= 1:
                continue

            def test_o(sub, li=li, ei=ei):
                c = copy.deepcopy(cur)
                c["lifetimes"][li]["episodes"][ei]["ops"] = sub
                return fails(c)
            cur["lifetimes"][li]["episodes"][ei]["ops"] = ddmin_list(ops, test_o, budget, min_keep=1)
    # ---- 4. simplify op arguments
    for li in _shrinkable_lifetimes(prof, cur):
        if li >= len(cur["lifetimes"]):
            continue
        for ei, ep in enumerate(cur["lifetimes"][li]["episodes"]):
            for oi, op in enumerate(ep["ops"]):
                if not budget.ok():
                    break
                cands = []
                if op[0] == "run":
                    cands.append(["iterate_n", max(1, len(op[2]) - 1)])
                    cands.append(["iterate"])
                    if len(op[2]) > 2:
                        cands.append(["run", op[1], [op[2][0], op[2][0] + max(op[1], 0)]])
                elif op[0] == "iterate_n" and op[1] > 1:
                    cands.append(["iterate"])
                    cands.append(["iterate_n", max(1, op[1] // 2)])
                elif op[0] == "drive" and len(op[1]) > 1:
                    cands.append(["drive", [["iterate"]], op[2]])
                    cands.append(["drive", op[1][:max(1, len(op[1]) // 2)], op[2]])
                elif op[0] == "simulate_script":
                    cands.append(["simulate_script", {"slices": [1], "ms": 1000}] + op[2:])
                elif op[0] == "poison" and op[1] != 0:
                    cands.append(["poison", 0])
                elif op[0] == "setup_batch" and len(op[1]) > 4:
                    cands.append(["setup_batch", op[1][:len(op[1]) // 2]])
                for cand in cands:
                    c = copy.deepcopy(cur)
                    c["lifetimes"][li]["episodes"][ei]["ops"][oi] = cand
                    if fails(c):
                        cur = c
                        break
    # ---- 5. plain re-rendering and 6. structural spec shrinking
    pid = cur.get("property")
    spec_ok = pid in ("C01", "C02", "C03", "C09", "C10", "C11") or (pid == "C08" and cur.get("meta", {}).get("twin") is None)
    for si_ in range(len(cur.get("scripts", [])) if spec_ok else 0):
        if not budget.ok():
            break
        entry = cur["scripts"][si_]
        if "phys" not in entry or entry["phys"].get("spec") is None:
            continue
        try:
            plain = C.rerender_plain(entry)
        except Exception:
            continue
        for k in entry["phys"]:
            if k not in plain["phys"]:
                plain["phys"][k] = entry["phys"][k]
        c = copy.deepcopy(cur)
        c["scripts"][si_] = plain
        if not fails(c):
            continue            # the violation depends on the rendering: keep it as it is
        cur = c
        # structural shrinking on the plain rendering
        changed = True
        while changed and budget.ok():
            changed = False
            for cand_spec in _spec_candidates(cur["scripts"][si_]["phys"]["spec"]):
                if not budget.ok():
                    break
                e2 = copy.deepcopy(cur["scripts"][si_])
                e2["phys"]["spec"] = cand_spec
                try:
                    Model(cand_spec)
                    e3 = C.rerender_plain(e2)
                except Exception:
                    continue
                for k in e2["phys"]:
                    if k not in e3["phys"]:
                        e3["phys"][k] = e2["phys"][k]
                c = copy.deepcopy(cur)
                c["scripts"][si_] = e3
                if fails(c):
                    cur = c
                    changed = True
                    break
    cur.setdefault("meta", {})["minimised"] = {"executions": budget.used}
    return cur, best_v[0]


def _spec_candidates(spec):
    """simpler specs, one change at a time"""
    out = []
    m = Model(spec)
    ns, nc = m.ns, m.nc
    # drop a reaction
    for i in range(len(spec["reactions"])):
        s = copy.deepcopy(spec)
        del s["reactions"][i]
        out.append(s)
    # no chemostats
    if m.chem.any():
        s = copy.deepcopy(spec)
        s["chem"] = None
        for sp in s["species"]:
            sp["chst"] = [0] * len(s["envs"])
        out.append(s)
    # drop a species that no reaction uses
    used = set()
    for r in spec["reactions"]:
        used.update(r["sub"])
        used.update(r["prod"])
    for k, spc in enumerate(spec["species"]):
        if spc["label"] in used or ns <= 1:
            continue
        s = copy.deepcopy(spec)
        del s["species"][k]
        if s.get("state") is not None:
            st = s["state"]
            s["state"] = st[:k * nc] + st[(k + 1) * nc:]
        if s.get("chem") is not None:
            ch = s["chem"]
            s["chem"] = ch[:k * nc] + ch[(k + 1) * nc:]
        out.append(s)
    # single environment
    if len(spec["envs"]) > 1:
        s = copy.deepcopy(spec)
        s["envs"] = s["envs"][:1]
        for sp in s["species"]:
            for key in ("D", "dens", "chst"):
                sp[key] = sp[key][:1]
        for r in s["reactions"]:
            r["kf"] = r["kf"][:1]
            r["kr"] = r["kr"][:1]
        if s["space"]["type"] == "grid":
            s["space"]["cell_env"] = [0] * nc
        else:
            for n in s["space"]["nodes"]:
                n["env"] = 0
        out.append(s)
    # smaller space
    sp = spec["space"]
    if sp["type"] == "grid":
        for ax in ("w", "h", "d"):
            if sp[ax] > 1:
                s = copy.deepcopy(spec)
                s["space"][ax] = sp[ax] - 1
                n2 = s["space"]["w"] * s["space"]["h"] * s["space"]["d"]
                s["space"]["cell_env"] = (sp["cell_env"] * 2)[:n2]
                s["state"] = None
                s["chem"] = None
                out.append(s)
        if any(b != "reflecting" for b in sp["bc"]):
            s = copy.deepcopy(spec)
            s["space"]["bc"] = ["reflecting"] * 3
            out.append(s)
    else:
        for i in range(len(sp["edges"])):
            s = copy.deepcopy(spec)
            del s["space"]["edges"][i]
            out.append(s)
        if len(sp["nodes"]) > 1:
            s = copy.deepcopy(spec)
            last = len(sp["nodes"]) - 1
            s["space"]["nodes"] = sp["nodes"][:last]
            s["space"]["edges"] = [e for e in sp["edges"] if e["i"] != last and e["j"] != last]
            s["state"] = None
            s["chem"] = None
            out.append(s)
    # default state
    if spec.get("state") is not None:
        s = copy.deepcopy(spec)
        s["state"] = None
        out.append(s)
    return out
