"""small statistics helpers (no scipy in the repository's venv)"""
import math


def poisson_logpmf(k, mu):
    if mu <= 0:
        return 0.0 if k == 0 else -math.inf
    return -mu + k * math.log(mu) - math.lgamma(k + 1)


def poisson_tail_p(s, mu):
    """two-sided tail probability min(P(X>=s), P(X<=s)) * 2 for X ~ Poisson(mu); exact for mu <= 2000, normal beyond"""
    if mu <= 0:
        return 1.0 if s == 0 else 0.0
    if mu > 2000:
        z = (s - mu) / math.sqrt(mu)
        return math.erfc(abs(z) / math.sqrt(2.0))
    if abs(s - mu) > 60.0 * math.sqrt(mu) + 60.0:
        return 0.0          # (beyond 60 standard deviations: below any threshold used here, and the sums below would be long)
    s = int(s)
    # lower tail
    lo = 0.0
    for k in range(0, s + 1):
        lo += math.exp(poisson_logpmf(k, mu))
    up = 1.0 - lo + math.exp(poisson_logpmf(s, mu))
    if up < 1e-12:
        # sum the upper tail directly for accuracy
        up = 0.0
        k = s
        while True:
            t = math.exp(poisson_logpmf(k, mu))
            up += t
            if t < up * 1e-17 or k > s + 100000:
                break
            k += 1
    return min(1.0, 2.0 * min(lo, up))


def ks_exp1(samples_sorted):
    """Kolmogorov-Smirnov distance of sorted samples against Exp(1)"""
    n = len(samples_sorted)
    d = 0.0
    for i, w in enumerate(samples_sorted):
        f = 1.0 - math.exp(-w)
        d = max(d, abs(f - i / n), abs((i + 1) / n - f))
    return d
