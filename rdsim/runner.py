"""Campaign runner: seeded search over cases on a pool of forked workers, classification, minimisation,
replay files, evidence."""
import concurrent.futures as cf
import faulthandler
import hashlib
import importlib
import json
import multiprocessing
import os
import sys
import time
import traceback

from . import build, world

VERIF = os.environ.get("RDSIM_VERIF", "/verif")
WORK = build.WORK
NPROC = int(os.environ.get("RDSIM_NPROC", "16"))


def profile(pid):
    return importlib.import_module("rdsim.profiles." + pid.lower())


# ------------------------------------------------------------------------------------------------ case execution
def generic_violations(case, results, expect_crash=None):
    """crash / timeout / harness classification common to all profiles."""
    out = []
    for li, res in enumerate(results):
        if res.status == "ok":
            continue
        v = {"lifetime": li, "mark": res.mark, "detail": "", "class": res.status}
        if res.status == "crash":
            v["oracle"] = "no-crash"
            v["detail"] = "signal=%s exit=%s at (episode, op)=%s\n%s" % (res.signal, res.exitcode, res.mark,
                                                                         res.stderr[-3000:])
        elif res.status == "timeout":
            v["oracle"] = "returns-within-budget"
            v["detail"] = "no return within the wall budget at (episode, op)=%s" % (res.mark,)
        else:
            v["oracle"] = "harness"
            v["detail"] = (res.harness_exc or "") + res.stderr[-2000:]
        out.append(v)
    return out


def generic_coverage(case, results):
    """simulated engine time (SI seconds), virtual wall-clock consumed by run(), iterations driven -- measured from the
    event logs, for the evidence files"""
    import struct as _struct
    from . import si as _si
    sim_s = 0.0
    vclock_ms = 0
    run_slices = 0
    slices_ended_by_clock = 0
    for li, res in enumerate(results):
        lt = case["lifetimes"][li]
        last_t = {}
        for ev in res.events:
            if ev.get("skipped") or "exc" in ev:
                continue
            ep = lt["episodes"][ev["e"]]
            try:
                eu = case["scripts"][ep["script"]]["phys"]["eu"]
                ft = _si.factor(eu, _si.DIM_TIME)
            except Exception:
                continue
            op = ev["op"]
            t = None
            if op == "setup":
                if ev["e"] in last_t:
                    sim_s += last_t.pop(ev["e"])
            elif op == "observe":
                t = ev["t"]
            elif op == "drive" and ev.get("obs_t"):
                t = ev["obs_t"][-1]
            elif op in ("output",) and ev.get("raw_t"):
                t = _struct.unpack_from("<d", ev["raw_t"], len(ev["raw_t"]) - 8)[0]
            if t is not None and t == t and abs(t) < 1e300:
                last_t[ev["e"]] = max(last_t.get(ev["e"], 0.0), t * ft)
            if op == "drive" and ev.get("run_stats"):
                run_slices += ev["run_stats"][0]
                slices_ended_by_clock += ev["run_stats"][1]
                vclock_ms += ev["run_stats"][2]
            if op == "simulate_script":
                run_slices += max(0, ev.get("calls", 0))
            if op == "run":
                plan = ep["ops"][ev["i"]][2]
                if isinstance(plan, list) and plan:
                    k = min(max(ev.get("calls", 1) - 1, 0), len(plan) - 1)
                    vclock_ms += max(0, plan[k] - plan[0])
                    run_slices += 1
                    if ev.get("ret"):
                        slices_ended_by_clock += 1
        sim_s += sum(last_t.values())
    sigs = set()
    for lt in case["lifetimes"]:
        seq = []
        for ep in lt["episodes"]:
            for o in ep["ops"]:
                if o[0] == "drive":
                    seq.append(("drive", tuple(q[0] for q in o[1])))
                else:
                    seq.append(o[0])
        sigs.add(int.from_bytes(hashlib.sha256(repr(seq).encode()).digest()[:6], "big"))
    return {"simulated_engine_seconds": sim_s, "virtual_clock_ms": vclock_ms, "run_slices": run_slices,
            "run_slices_ended_by_clock": slices_ended_by_clock, "op_sequences": sigs}


def evaluate(prof, case, libs, timeout):
    """run a case and apply the profile's oracles. returns (violations, stats, results)"""
    lib = libs[os.environ.get("RDSIM_FORCE_BUILD") or case.get("build", "plain")]
    results = []
    for i in range(len(case["lifetimes"])):
        if results and hasattr(prof, "continue_after") and not prof.continue_after(case, results):
            break
        fresh = case["lifetimes"][i].get("fresh_interpreter")
        if fresh:
            results.append(world.run_lifetime_fresh(case, i, lib, max(timeout, 60.0), hashseed=int(fresh)))
        else:
            results.append(world.run_lifetime(case, i, lib, timeout))
    viol = generic_violations(case, results)
    stats = {}
    harness = [v for v in viol if v["class"] == "harness"]
    if harness:
        return viol, stats, results
    try:
        pv, stats = prof.check(case, results)
    except Exception:
        viol.append({"class": "harness", "oracle": "harness", "detail": "oracle raised:\n" + traceback.format_exc(),
                     "lifetime": None})
        return viol, stats, results
    try:
        stats.update(generic_coverage(case, results))
    except Exception:
        pass
    # a profile may declare crashes expected/attributed (known findings); it returns them relabelled
    if stats.pop("_drop_generic_crashes", False):
        viol = [v for v in viol if v["class"] not in ("crash",)]
    viol.extend(pv)
    return viol, stats, results


def _worker_chunk(args):
    pid, tier, seed, indices, libs, timeout = args
    faulthandler.enable()
    prof = profile(pid)
    out = []
    for idx in indices:
        t0 = time.time()
        try:
            case = prof.generate(seed, tier, idx)
            viol, stats, results = evaluate(prof, case, libs, timeout)
            rec = {"index": idx, "viol": viol, "stats": stats, "wall": time.time() - t0,
                   "digest": [r.digest() for r in results]}
            if viol:
                rec["case"] = case
            if idx < 3:
                rec["sample"] = prof.describe(case) if hasattr(prof, "describe") else None
        except Exception:
            rec = {"index": idx, "viol": [{"class": "harness", "oracle": "harness",
                                           "detail": "generate/evaluate raised:\n" + traceback.format_exc()}],
                   "stats": {}, "wall": time.time() - t0, "digest": []}
        out.append(rec)
    return out


def merge_stats(total, st):
    for k, v in st.items():
        if isinstance(v, (int, float)) and str(k).startswith("max_"):
            total[k] = max(total.get(k, v), v)
        elif isinstance(v, (int, float)):
            total[k] = total.get(k, 0) + v
        elif isinstance(v, (list, set, tuple)):
            total.setdefault(k, set()).update(v)
        elif isinstance(v, dict):
            merge_stats(total.setdefault(k, {}), v)


def run_pool(pid, tier, seed, indices, libs, timeout, nproc=NPROC, chunk=8, wall_cap=None, stop_after_timeouts=None):
    """stop_after_timeouts: once that many cases ended in the 'returns-within-budget' oracle the remaining cases are not
    started (a tree that hangs would otherwise cost timeout x cases); the violations found so far are reported."""
    ctx = multiprocessing.get_context("fork")
    chunks = [indices[i:i + chunk] for i in range(0, len(indices), chunk)]
    recs = []
    t0 = time.time()
    with cf.ProcessPoolExecutor(max_workers=nproc, mp_context=ctx) as ex:
        futs = [ex.submit(_worker_chunk, (pid, tier, seed, c, libs, timeout)) for c in chunks]
        n_to = 0
        for f in cf.as_completed(futs):
            got = f.result()
            recs.extend(got)
            n_to += sum(1 for r in got if any(v.get("class") == "timeout" for v in r["viol"]))
            if (wall_cap and time.time() - t0 > wall_cap) or (stop_after_timeouts and n_to >= stop_after_timeouts):
                for g in futs:
                    g.cancel()
                print("NOTE: stopped early after %d of %d cases (%d of them did not return within their budget, %.0fs)" % (
                    len(recs), len(indices), n_to, time.time() - t0), flush=True)
                break
    recs.sort(key=lambda r: r["index"])
    return recs


# ------------------------------------------------------------------------------------------------ replay files
def write_replay(pid, seed, case, violation, digest, extra=None):
    d = os.path.join(VERIF, "replays", pid)
    os.makedirs(d, exist_ok=True)
    name = "%s-seed%d-case%d-%s.json" % (pid, seed, case.get("index", 0),
                                         hashlib.sha256(json.dumps(violation.get("oracle", "")).encode()).hexdigest()[:6])
    path = os.path.join(d, name)
    doc = {"format": 1, "property": pid, "seed": seed, "case": case,
           "violation": {k: violation.get(k) for k in ("class", "oracle", "detail", "lifetime", "episode", "op", "mark")},
           "digest": digest}
    if extra:
        doc.update(extra)
    with open(path, "w", encoding="utf-8") as f:
        json.dump(doc, f, ensure_ascii=False, indent=1, default=str)
    return path


def replay_file(path, libs=None, timeout=60.0):
    """re-executes a replay file in fresh children; returns (reproduced, violations, digest)"""
    doc = json.load(open(path, encoding="utf-8"))
    pid = doc["property"]
    prof = profile(pid)
    case = doc["case"]
    if case.get("global"):
        # a pooled statistic: re-run the same index range and re-evaluate the pooled oracle
        if libs is None:
            libs = {"plain": build.build("plain")}
        lo, hi = case["indices"]
        recs = run_pool(pid, case["tier"], case["seed"], list(range(lo, hi)), libs, prof.timeout(case["tier"]))
        total = {}
        for r in recs:
            merge_stats(total, r["stats"])
        gv, info = prof.global_check(total)
        same = [v for v in gv if v["oracle"] == doc["violation"].get("oracle")]
        return bool(same), gv, [json.dumps(info, sort_keys=True)], doc
    if libs is None:
        libs = {k: build.build(k) for k in ({"plain", case.get("build", "plain")})}
    viol, stats, results = evaluate(prof, case, libs, timeout)
    digest = [r.digest() for r in results]
    want = doc["violation"]
    if str(want.get("oracle", "")).endswith(".repeatable"):
        # repeat the case: the violation is that event logs differ between executions
        for k in range(6):
            viol_k, _, results_k = evaluate(prof, case, libs, timeout)
            if [r.digest() for r in results_k] != digest:
                viol.append({"class": "violation", "oracle": want["oracle"], "lifetime": None,
                             "detail": "event logs differ between repeated executions"})
                break
    same = [v for v in viol if v.get("oracle") == want.get("oracle") and v.get("class") == want.get("class")]
    return bool(same), viol, digest, doc


# ------------------------------------------------------------------------------------------------ evidence
def write_evidence(pid, tier, seed, level, coverage, wall, violations, assumptions):
    d = os.path.join(VERIF, "evidence")
    os.makedirs(d, exist_ok=True)

    def clean(o):
        if isinstance(o, set):
            return len(o)
        if isinstance(o, dict):
            return {str(k): clean(v) for k, v in o.items()}
        if isinstance(o, (list, tuple)):
            return [clean(v) for v in o]
        if isinstance(o, float) and (o != o or o in (float("inf"), float("-inf"))):
            return str(o)
        return o
    doc = {"property_id": pid, "tier": tier, "seed": int(seed), "level": level, "coverage": clean(coverage),
           "assumptions": assumptions, "wall_s": round(wall, 2), "violations": int(violations)}
    tmp = os.path.join(d, pid + ".json.tmp%d" % os.getpid())
    with open(tmp, "w", encoding="utf-8") as f:
        json.dump(doc, f, ensure_ascii=False, indent=1, default=str)
    os.replace(tmp, os.path.join(d, pid + ".json"))
