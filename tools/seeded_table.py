"""rewrites the block between the SEEDED-TABLE markers in DESIGN.md from /verif/seeded/*/meta.json"""
import glob
import json
import os
import re

rows = []
for d in sorted(glob.glob("/verif/seeded/*")):
    mp = os.path.join(d, "meta.json")
    if not os.path.exists(mp):
        continue
    m = json.load(open(mp))
    name = os.path.basename(d)
    res = m.get("checks_run (check:VIOLATION lines)", m.get("checks_run", ""))
    caught = [c.split(":")[0] for c in res.split() if ":" in c and c.split(":")[1] not in ("0", "")]
    missed = [c.split(":")[0] for c in res.split() if ":" in c and c.split(":")[1] == "0"]
    rows.append("| %s | %s | %s | %s | %s |" % (name, m.get("property"), (m.get("what") or "see notes.md").replace("|", "/"),
                                               (m.get("needs") or "").replace("|", "/"),
                                               ("caught by " + ", ".join(caught) if caught else "**not caught**") +
                                               ("; silent: " + ", ".join(missed) if missed else "")))
block = ("<!-- SEEDED-TABLE-BEGIN -->\n| change | property | what the change does | what it needs to manifest | quick-tier result |\n"
         "|---|---|---|---|---|\n" + "\n".join(rows) + "\n<!-- SEEDED-TABLE-END -->")
s = open("/verif/DESIGN.md").read()
if "<!-- SEEDED-TABLE-BEGIN -->" in s:
    s = re.sub(r"<!-- SEEDED-TABLE-BEGIN -->.*<!-- SEEDED-TABLE-END -->", lambda _m: block, s, flags=re.S)
else:
    s += "\n" + block + "\n"
open("/verif/DESIGN.md", "w").write(s)
print(len(rows), "rows")
