#!/bin/bash
# usage: seedregress.sh [name-pattern]  -- re-runs every stored seeded change (/verif/seeded/*/patch.diff) against the current
# checks: for each change the checks recorded as catching it in its meta.json (at most two). Writes /verif/seeded/REGRESSION.txt
cd /verif
PAT=${1:-.}
OUT=${OUT:-/verif/seeded/REGRESSION.txt}
: > $OUT.tmp
for d in $(ls seeded | grep -E "$PAT"); do
  [ -f seeded/$d/patch.diff ] || continue
  CHECKS=$(/venv/bin/python - "$d" <<'PY'
import json, sys
m = json.load(open('/verif/seeded/%s/meta.json' % sys.argv[1]))
res = m.get('checks_run (check:VIOLATION lines)', '')
c = [x.split(':')[0] for x in res.split() if ':' in x and x.split(':')[0][:1] == 'C' and x.split(':')[1] not in ('0', '')]
own = m.get('property')
c = sorted(set(c), key=lambda x: (x != own, x))[:2]
print(' '.join(c) if c else own)
PY
)
  R=$(tools/seedcheck.sh $d $CHECKS 2>&1 | grep "check C")
  echo "$R" | tee -a $OUT.tmp
done
mv $OUT.tmp $OUT
echo "caught lines: $(grep -c 'VIOLATION lines=[1-9]' $OUT) silent lines: $(grep -c 'VIOLATION lines=0' $OUT)"
