"""rewrites the block between the EVIDENCE-TABLE markers in DESIGN.md from /verif/evidence/*.json"""
import glob, json, os, re
rows = []
for f in sorted(glob.glob("/verif/evidence/*.json")):
    e = json.load(open(f)); c = e["coverage"]
    faults = c.get("faults_fired") or {}
    rows.append("| %s | %s | %d | %d | %s | %s | %s | %.0f |" % (
        e["property_id"], e["tier"], c["evaluations"], c["distinct_nontrivial"], c.get("simulated_lifetimes"),
        c.get("engine_steps") if c.get("engine_steps") is not None else c.get("ops_executed_per_environment"),
        len(faults), e["wall_s"]))
block = ("<!-- EVIDENCE-TABLE-BEGIN -->\n| property | tier | cases | non-trivial | simulated lifetimes | engine steps checked (C11: ops per environment) | fault / workload kinds fired | wall s |\n"
         "|---|---|---|---|---|---|---|---|\n" + "\n".join(rows) + "\n<!-- EVIDENCE-TABLE-END -->")
s = open("/verif/DESIGN.md").read()
if "<!-- EVIDENCE-TABLE-BEGIN -->" in s:
    s = re.sub(r"<!-- EVIDENCE-TABLE-BEGIN -->.*<!-- EVIDENCE-TABLE-END -->", lambda _m: block, s, flags=re.S)
else:
    s += "\n### 10.7 Last committed evidence (quick tier, VERIF_SEED=1, this sandbox, 16 cores)\n\n" + block + "\n"
open("/verif/DESIGN.md", "w").write(s)
print(len(rows))
