#!/bin/bash
# usage: seedcheck.sh <seeded dir name> <check ids...> -- applies /verif/seeded/<name>/patch.diff to a fresh scratch worktree of
# /repo, runs the given checks against it (RDSIM_REPO), prints the VIOLATION summary, removes the worktree.
set -u
N=$1; shift
WT=/tmp/sc-$N
git -C /repo worktree remove --force $WT >/dev/null 2>&1
git -C /repo worktree add --detach $WT HEAD >/dev/null 2>&1 || exit 3
( cd $WT && { git apply /verif/seeded/$N/patch.diff 2>/dev/null || git apply -3 /verif/seeded/$N/patch.diff >/dev/null 2>&1; } ) || { echo "$N check -: patch does not apply"; git -C /repo worktree remove --force $WT; exit 3; }
( cd $WT && git diff --quiet HEAD -- . ) && { echo "$N check -: patch applied to nothing"; git -C /repo worktree remove --force $WT; exit 3; }
for C in "$@"; do
  R=$(cd /verif && RDSIM_REPO=$WT RDSIM_VERIF=/tmp/scout-$N timeout -k 10 1800 /venv/bin/python -m rdsim check $C --no-evidence 2>&1 | grep -v '^    File' | grep -v KNOWN-FINDING | cut -c1-300)
  V=$(echo "$R" | grep -c '^VIOLATION')
  echo "$N check $C: VIOLATION lines=$V $(echo "$R" | grep 'oracle=' | head -2 | sed 's/^ *//' | tr '\n' ';' | cut -c1-160) | $(echo "$R" | tail -1 | cut -c1-100)"
done
rm -rf /tmp/scout-$N
git -C /repo worktree remove --force $WT
