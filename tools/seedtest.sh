#!/bin/bash
# usage: seedtest.sh <PROP> <mutN> [check ids...]  -- verifies a sub-agent's seeded change in its own scratch worktree
# (tests still pass, demo FAILs with / PASSes without), runs the given checks against the patched tree, stores the result.
set -u
P=$1; M=$2; shift 2
CHECKS=${@:-$P}
R=${ROUND:-1}; if [ "$R" = "1" ]; then WT=/tmp/seed-$P; else WT=/tmp/seed$R-$P; fi
OUT=$WT/_out/$M
if [ "${ROUND:-1}" = "1" ]; then DEST=/verif/seeded/$P-$M; else DEST=/verif/seeded/$P-r${ROUND}-$M; fi
LOG=/tmp/exp/seedtest-${ROUND:-1}-$P-$M.log
: > $LOG
cd $WT || exit 3
git checkout -- . >/dev/null 2>&1
git apply $OUT/patch.diff 2>>$LOG || { echo "PATCH DOES NOT APPLY"; exit 3; }
PYTHONPATH=$WT/src timeout 600 /venv/bin/python setup.py build_ext --inplace >/dev/null 2>&1; rm -rf build
T=$(PYTHONPATH=$WT/src timeout 900 /venv/bin/python -m pytest -q -p no:cacheprovider --timeout=900 2>&1 | tail -1)
PYTHONPATH=$WT/src timeout 600 /venv/bin/python $OUT/demo.py > /tmp/exp/demo-with.txt 2>&1; DW=$?
echo "tests(with change): $T | demo with change exit=$DW ($(tail -1 /tmp/exp/demo-with.txt | cut -c1-80))"
RES=""
for C in $CHECKS; do
  R=$(cd /verif && RDSIM_REPO=$WT RDSIM_VERIF=/tmp/seedout-$P-$M timeout -k 10 1500 /venv/bin/python -m rdsim check $C --no-evidence 2>&1 | grep -v '^    File' | grep -v KNOWN-FINDING | cut -c1-400)
  echo "$R" >> $LOG
  V=$(echo "$R" | grep -c '^VIOLATION')
  O=$(echo "$R" | grep 'oracle=' | head -2 | sed 's/^ *//' | tr '\n' ';' | cut -c1-200)
  echo "   check $C: VIOLATION lines=$V  $O | $(echo "$R" | tail -1 | cut -c1-120)"
  RES="$RES $C:$V"
done
rm -rf /tmp/seedout-$P-$M
git checkout -- . >/dev/null 2>&1
PYTHONPATH=$WT/src timeout 600 /venv/bin/python setup.py build_ext --inplace >/dev/null 2>&1; rm -rf build
PYTHONPATH=$WT/src timeout 600 /venv/bin/python $OUT/demo.py > /tmp/exp/demo-without.txt 2>&1; DO=$?
echo "demo without change exit=$DO ($(tail -1 /tmp/exp/demo-without.txt | cut -c1-80))"
mkdir -p $DEST
cp $OUT/patch.diff $OUT/demo.py $OUT/notes.md $DEST/ 2>/dev/null
/venv/bin/python - "$DEST/meta.json" "$P" "$T" "$DW" "$DO" "$RES" <<'PYEOF'
import json, sys, os
path, prop, tests, dw, do, res = sys.argv[1:7]
m = {}
if os.path.exists(path):
    try:
        m = json.load(open(path))
    except Exception:
        m = {}
m.update({"property": prop, "source": "independent sub-agent given only the property text and a scratch worktree",
          "tests_with_change": tests, "demo_exit_with_change": int(dw), "demo_exit_without_change": int(do),
          "checks_run (check:VIOLATION lines)": res.strip()})
m.pop("checks_run", None)
m.setdefault("needs", "see notes.md")
json.dump(m, open(path, "w"), indent=1)
PYEOF
