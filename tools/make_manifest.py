"""writes MANIFEST.json from the table below (kept as a script so that the file stays consistent)"""
import json

CLAIMED = {
    "C08": ("A trajectory is a pure function of script, engine kind and seed",
            "seeded search over driver schedules, virtual-clock faults, engine objects and process pre-histories; "
            "bit-identity of trajectories against an iterate()-only reference lifetime",
            "Seeded exploration: every case runs the real Python front end and the real native engine (rebuilt from the "
            "working tree) in forked process lifetimes; a reference lifetime driven by iterate() only is compared "
            "bit for bit with variant lifetimes that differ in schedule (iterate / iterate_n / run under a virtual clock "
            "with stalls, forward and backward jumps / the library's own simulate_script loop), engine object, factory, "
            "process pre-history and observers. A clean batch is evidence, not proof.", "5 (C08)"),
    "C01": ("Deterministic rate law: mass-action reactions plus Bernstein diffusion",
            "per-step refinement of every simulated Euler history against an independent reference rate law; kinetics "
            "functions evaluated as co-observers at visited states",
            "Seeded exploration over random systems rendered under random units at every nesting level: every Euler step of "
            "every simulated history must equal x + dt*f_ref(x) (rtol 1e-11 of |x|+dt*sum|terms|) with f_ref written "
            "independently from the statement; compute_dspeciesdt / compute_dstatedt / make_dxdtf are evaluated at visited "
            "states (plain differential evaluation, reported separately).", "5 (C01)"),
    "C02": ("Every engine conserves every conservation law of the network",
            "history oracle over recorded samples of seeded runs of all three engines under random batched schedules",
            "Seeded exploration: integer left null space of the reference stoichiometry (exact Fraction elimination), "
            "restricted to species without chemostated entries; sum_cells c.x must be constant over every recorded sample: "
            "bitwise for the stochastic engines, 1e-9 relative for Euler.", "5 (C02)"),
    "C03": ("Chemostated entries never change; everything else ignores the flag",
            "invariant on every observed state and record of seeded histories (bit-constancy of flagged entries), masked Euler "
            "refinement, model of hand-applied reactions between set-ups, kinetics co-observers",
            "Seeded exploration with chemostat maps as the varied dimension, on all engines, with re-set-ups and "
            "apply_reaction(update=True) in the history.", "5 (C03)"),
    "C09": ("Sampling contract: which states are recorded, when, and in what shape",
            "reference sampler model fed with the observed step history of seeded episodes (explicit sample() calls and calls "
            "after completion interleaved) must predict exactly the recorded samples",
            "Seeded exploration over policies, request lists (duplicates, clusters, empty, on-grid ties), t_max, units and "
            "engines; the engine is stepped one iteration at a time and observed after every call; records, shapes, order and "
            "unit scaling of the fetched trajectory are compared with the model's prediction.", "5 (C09)"),
    "C10": ("Simulations terminate, and the engine lifecycle is crash-free and isolated",
            "seeded random lifecycle histories with injected lifecycle faults (finalize at any point and repeatedly, abandon, "
            "re-set-up, calls after completion, degenerate slices, overlapping engine objects) checked op by op against a "
            "reference lifecycle state machine; bounded-step liveness via the loop-budget hook",
            "Seeded exploration of lifecycle histories over 1-3 engine objects and up to 6 set-ups; every script also runs "
            "alone in a fresh process lifetime, which gives the iterations to completion and the bytes a clean-slate set-up "
            "must reproduce. Crash / hang / timeout classification per op. Overlap histories are reported as known finding KF-1.",
            "5 (C10)"),
    "C11": ("The native engine is memory-safe on every valid script",
            "the seeded lifecycle histories of C10 over degenerate shapes executed on an ASan+UBSan+_GLIBCXX_ASSERTIONS build, "
            "with allocator-fill twins and a plain-build twin whose event logs must be identical",
            "Seeded exploration on instrumented native code: every sanitizer report is a violation; allocator fill bytes "
            "0x00/0xbe and the plain build must give the same event log digest, which exposes reads of uninitialised heap "
            "and of freed marshalling buffers (substitute for MemorySanitizer, which is not available).", "5 (C11)"),
    "C14": ("Initial-state processing yields a valid molecular state with the right totals",
            "seeded batches of set-ups over seeds, states, modes, engines and space types; exact and statistical oracles on the "
            "state read right after each set-up; bounded-step termination via the loop-budget hook",
            "Seeded exploration: integrality, non-negativity, zero preservation and floor totals are exact oracles; Poisson "
            "mode is tested per entry with an exact Poisson tail test over 200 seeds (p < 1e-10) plus pooled variance / "
            "zero-class / neighbour-correlation statistics; termination is a step bound (H2), reproducibility is bitwise.",
            "5 (C14)"),
    "C04": ("Physical results do not depend on the units used to state or report them",
            "metamorphic twin episodes: one physical spec under 2-4 independent unit renderings run on the real engine; "
            "histories compared in SI with each other and with the reference Euler model",
            "Seeded exploration of unit renderings at every nesting level (inherit / default / explicit, bare numbers or "
            "explicit-unit strings incl. litre and molar families, scrambled declarations, different output units). This is "
            "a metamorphic relation between simulated histories, not a fault search: the schedule is fixed.", "5 (C04)"),
    "C07": ("Stochastic engines take only legal steps, at the rates of the master equation",
            "per-step legality of every Gillespie step against a static table of masked event effects; waiting-time and "
            "event-class martingales; tau-leap conditional-moment martingales; statistics pooled per case and per run",
            "Seeded exploration: the legality oracle is exact; the statistical oracles are deterministic functions of the seed "
            "with thresholds of 6.5 sigma (KS 3.3), so a pass or failure is exactly repeatable. Power: single cases see "
            "propensity errors of ~5-10%, the pooled statistics of the quick tier ~2%, the thorough tier below 1%.", "5 (C07)"),
    "C12": ("Dictionary, JSON and file round-trips preserve the model",
            "stateful model of a sandbox directory tree (save / multi-file split / chdir / move / copy / load, relative and "
            "absolute paths) driven by seeded op sequences against the real save/load functions; physical content compared in SI",
            "Seeded exploration over objects built from rendered dictionaries (network, space, system, script, trajectory of "
            "a real short simulation) and over file-system histories; the I/O seam (directory tree, cwd, relocation) is owned "
            "by the simulator. Not decided: key-alias interchangeability and documented defaults (static clauses).", "5 (C12)"),
}

NA = {
    "C05": "pure value algebra on UnitValue/UnitArray operands: no schedule, clock, I/O, shared state or fault it could depend on",
    "C06": "unit conversion is a pure table lookup and multiplication",
    "C13": "default state/chemostat layout and per-entry accessors are arithmetic on one Python object; nothing nondeterministic or faultable",
    "C15": "grid index/neighbour arithmetic and grid->graph conversion are pure functions (the engine's neighbour table is pinned by C01's reference law)",
    "C16": "coarse-graining / un-coarse-graining is pure aggregation arithmetic",
    "C17": "trajectory accessors index an immutable array",
    "C18": "unit/quantity text is a pure parser and printer",
    "C19": "reaction-equation parsing and rate-constant dimensions are pure functions of the text",
    "C20": "rejection of invalid input is a function of constructor arguments only",
}
PENDING = {k: "not claimed yet: check under construction in this round (DESIGN.md section 5); to be replaced by a check" for k in
           ["C01", "C02", "C03", "C04", "C07", "C09", "C10", "C11", "C12", "C14"]}
for _k in list(PENDING):
    if _k in CLAIMED:
        del PENDING[_k]


def main():
    checks = []
    for pid, (title, technique, text, ref) in sorted(CLAIMED.items()):
        checks.append({
            "property_id": pid,
            "quick_cmd": "timeout -k 10 900 /venv/bin/python -m rdsim check %s --tier quick" % pid,
            "thorough_cmd": "timeout -k 10 7200 /venv/bin/python -m rdsim check %s --tier thorough" % pid,
            "evidence_file": "/verif/evidence/%s.json" % pid,
            "replay_cmd_template": "/venv/bin/python -m rdsim replay {path}",
            "engine": "rdsim",
            "level_claimed": {"category": "exploration", "text": text, "design_ref": "DESIGN.md section " + ref},
            "level_note": "trusted base: the reference models in /verif/rdsim/models.py, CPython/ctypes/numpy, g++/clang; "
                          "the virtual clock replaces std::chrono only inside engineexport_run (hook H1, guard STRENGTHS_VERIF=1)",
            "technique": "deterministic simulation with fault injection: " + technique,
        })
    na = [{"property_id": k, "reason": v} for k, v in sorted({**NA, **PENDING}.items())]
    m = {
        "version": 1,
        "setup_cmd": "mkdir -p /verif/.work && /venv/bin/python -m compileall -q /verif/rdsim && /venv/bin/python -m rdsim.build plain san",
        "hooks": {
            "guard": "STRENGTHS_VERIF",
            "enable": "environment variable STRENGTHS_VERIF=1 at run time (hooks are compiled in, inert otherwise); checks build "
                      "src/strengths/engines/strengths_engine/src/engine.cpp of the working tree with g++/clang++ themselves",
            "baseline_off_cmd": "cd /repo && /venv/bin/python setup.py build_ext --inplace >/dev/null 2>&1 && rm -rf build && env -u STRENGTHS_VERIF /venv/bin/python -m pytest -ra -q -p no:cacheprovider --timeout=900 --continue-on-collection-errors",
            "source_commits": ["797f842"],
            "add_only": True,
        },
        "engines": [{"name": "rdsim", "path": "/verif/rdsim", "serves_properties": sorted(CLAIMED),
                     "kind_free_text": "hand-written deterministic simulator: seeded case generator, forked process lifetimes "
                                       "running the real library + native engine, virtual clock, reference models, ddmin shrinker"}],
        "checks": checks,
        "not_applicable": na,
        "notes": "See DESIGN.md. PYTHONPATH is not needed: commands run with cwd=/verif.",
    }
    json.dump(m, open("/verif/MANIFEST.json", "w"), indent=1)


if __name__ == "__main__":
    main()
