#!/venv/bin/python
"""Mechanical mutation sweep: samples single-token / single-statement mutants of the files the claimed properties are
anchored in, keeps those that still build and pass the repository's test suite, and runs the quick checks against each
(cheapest first) until one reports a violation. Survivors are listed for inspection (equivalent mutant or blind spot).

usage: mutsweep.py --tag T --seed S --n N [--files f1 f2 ...] [--checks C04 C09 ...]
Everything happens in /tmp/msw-<tag> (scratch worktree of /repo, own build cache); results are appended to
/verif/mutsweep/<tag>.jsonl. The scratch directory is removed at the end."""
import argparse
import json
import os
import random
import re
import shutil
import subprocess
import sys
import time

ENG = "src/strengths/engines/strengths_engine/src/"
DEFAULT_FILES = [ENG + f for f in (
    "engine.cpp", "SimulationAlgorithm3DBase.hpp", "SimulationAlgorithmGraphBase.hpp", "Euler3D.hpp", "EulerGraph.hpp",
    "TauLeap3D.hpp", "TauLeapGraph.hpp", "Gillespie3D.hpp", "GillespieGraph.hpp")] + ["src/strengths/" + f for f in (
    "librdengine.py", "kinetics.py", "rdsystem.py", "rdnetwork.py", "rdscript.py", "rdoutput.py", "rdengine.py",
    "simulate.py", "value_processing.py", "rdgridspace.py", "rdgraphspace.py", "units.py", "filepath.py",
    "engine_collection.py")]
ORDER = ["C04", "C09", "C03", "C01", "C02", "C12", "C10", "C14", "C08", "C07", "C11"]

ROR = [(r"(?<![<>=!\-+*/])<(?![<=])", "<="), (r"(?<![<>=!])<=", "<"), (r"(?<![<>=!\-])>(?![>=])", ">="),
       (r"(?<![<>=!])>=", ">"), (r"==", "!="), (r"!=", "==")]
AOR = [(r"(?<=[\w)\]])\s*\+(?![+=])", "-"), (r"(?<=[\w)\]])\s*-(?![-=>])", "+"), (r"(?<=[\w)\]])\s*\*(?![*=])\s*(?=[\w(])", "/"),
       (r"(?<=[\w)\]])\s*/(?![/=*])", "*"), (r"\+=", "-="), (r"-=", "+="), (r"\*=", "/=")]
LOR_C = [(r"&&", "||"), (r"\|\|", "&&")]
LOR_PY = [(r"\band\b", "or"), (r"\bor\b", "and"), (r"\bnot\s+", "")]
CONST = [(r"(?<![\w.])0(?![\w.])", "1"), (r"(?<![\w.])1(?![\w.])", "0"), (r"(?<![\w.])1(?![\w.])", "2"),
         (r"(?<![\w.])2(?![\w.])", "3"), (r"\btrue\b", "false"), (r"\bfalse\b", "true"), (r"\bTrue\b", "False"),
         (r"\bFalse\b", "True")]
SWAP = [(r"\[i\]", "[j]"), (r"\[j\]", "[i]"), (r"\bmin\(", "max("), (r"\bmax\(", "min("), (r"\bfloor\(", "ceil("),
        (r"\bceil\(", "floor("), (r"\+\s*1\b", ""), (r"-\s*1\b", "")]


def code_part(line, py):
    """the part of the line before a comment (rough; string literals are left alone by the operators' shapes)"""
    if py:
        i = line.find("#")
    else:
        i = line.find("//")
    return line if i < 0 else line[:i]


def sites(path, text):
    py = path.endswith(".py")
    out = []
    lines = text.split("\n")
    in_doc = False
    skip_until_brace = 0
    for ln, raw in enumerate(lines):
        line = raw.rstrip("\r")
        s = line.strip()
        if py:
            if s.count('"""') == 1 or s.count("'''") == 1:
                in_doc = not in_doc
                continue
            if in_doc or s.startswith("#") or s.startswith('"""') or s.startswith("'''") or not s:
                continue
            if s.startswith(("import ", "from ", "def ", "class ", "raise ", "@")):
                continue
        else:
            if not s or s.startswith(("//", "#", "*", "/*")):
                continue
            if "verif" in line.lower():
                continue
        code = code_part(line, py)
        ops = ROR + AOR + CONST + SWAP + (LOR_PY if py else LOR_C)
        for k, (pat, rep) in enumerate(ops):
            for mt in re.finditer(pat, code):
                g = mt.group(0)
                rg = g.replace(g.strip(), rep, 1) if rep else ""
                new = code[:mt.start()] + rg + code[mt.end():]
                if new != code:
                    out.append((ln, "tok%d" % k, new + line[len(code):]))
        # statement deletion
        if py:
            if re.match(r"^[\w\.\[\]\(\), \"']+\s*(=|\+=|-=|\*=)(?!=)", s) or re.match(r"^[\w\.]+\(.*\)\s*$", s):
                if not s.endswith((",", "(", "[", "{", "\\")) and s.count("(") == s.count(")") and s.count("[") == s.count("]"):
                    ind = line[:len(line) - len(line.lstrip())]
                    out.append((ln, "del", ind + "pass"))
        else:
            if s.endswith(";") and not re.match(r"^(return|int|double|float|bool|long|unsigned|size_t|std::|auto|const|static|"
                                                r"using|typedef|extern|virtual|break|continue|delete|template|class|struct)\b", s) \
                    and ("=" in s or "(" in s) and s.count("(") == s.count(")") and not s.startswith(("for", "if", "while", "else", "}")):
                ind = line[:len(line) - len(line.lstrip())]
                out.append((ln, "del", ind + ";"))
    return out


def sh(cmd, cwd=None, env=None, timeout=None):
    try:
        r = subprocess.run(cmd, cwd=cwd, env=env, capture_output=True, text=True, timeout=timeout)
        return r.returncode, r.stdout + r.stderr
    except subprocess.TimeoutExpired as e:
        return 124, (e.stdout or b"").decode("utf8", "replace") if isinstance(e.stdout, bytes) else (e.stdout or "")


def main():
    ap = argparse.ArgumentParser()
    ap.add_argument("--tag", required=True)
    ap.add_argument("--seed", type=int, default=1)
    ap.add_argument("--n", type=int, default=50)
    ap.add_argument("--files", nargs="*", default=None)
    ap.add_argument("--checks", nargs="*", default=ORDER)
    ap.add_argument("--ops", default=None, help="regex on the operator name (tok<k> / del)")
    a = ap.parse_args()
    root = "/tmp/msw-" + a.tag
    wt = root + "/repo"
    outdir = "/verif/mutsweep"
    os.makedirs(outdir, exist_ok=True)
    res_path = os.path.join(outdir, a.tag + ".jsonl")
    subprocess.run(["git", "-C", "/repo", "worktree", "remove", "--force", wt], capture_output=True)
    shutil.rmtree(root, ignore_errors=True)
    os.makedirs(root)
    r = subprocess.run(["git", "-C", "/repo", "worktree", "add", "--detach", wt, "HEAD"], capture_output=True, text=True)
    if r.returncode:
        print(r.stderr)
        return 3
    env = dict(os.environ)
    env["PYTHONPATH"] = wt + "/src"
    files = a.files or DEFAULT_FILES
    allsites = []
    for f in files:
        text = open(os.path.join(wt, f), newline="").read()
        for (ln, op, new) in sites(f, text):
            if a.ops and not re.search(a.ops, op):
                continue
            allsites.append((f, ln, op, new))
    rnd = random.Random(a.seed)
    rnd.shuffle(allsites)
    # at most 2 mutants per (file, line)
    seen = {}
    chosen = []
    for s_ in allsites:
        k = (s_[0], s_[1])
        if seen.get(k, 0) >= 1:
            continue
        seen[k] = seen.get(k, 0) + 1
        chosen.append(s_)
        if len(chosen) >= a.n:
            break
    print("%d candidate sites, %d chosen" % (len(allsites), len(chosen)), flush=True)

    def build_ext():
        rc, out = sh(["/venv/bin/python", "setup.py", "build_ext", "--inplace"], cwd=wt, env=env, timeout=600)
        shutil.rmtree(os.path.join(wt, "build"), ignore_errors=True)
        return rc, out

    rc, out = build_ext()
    if rc:
        print("baseline build failed", out[-2000:])
        return 3
    cenv = dict(os.environ)
    cenv.update({"RDSIM_REPO": wt, "RDSIM_WORK": root + "/work", "RDSIM_VERIF": root + "/out"})
    cenv.pop("PYTHONPATH", None)
    so_dirty = False        # the in-place extension was last built from a mutated tree
    for n, (f, ln, op, new) in enumerate(chosen):
        t0 = time.time()
        p = os.path.join(wt, f)
        orig = open(p, newline="").read()
        lines = orig.split("\n")
        cr = "\r" if lines[ln].endswith("\r") else ""
        before = lines[ln].rstrip("\r")
        lines[ln] = new.rstrip("\r") + cr
        open(p, "w", newline="").write("\n".join(lines))
        rec = {"n": n, "file": f, "line": ln + 1, "op": op, "before": before.strip(), "after": new.strip()}
        cpp = not f.endswith(".py")
        status = None
        if cpp:
            rc, out = build_ext()
            so_dirty = True
            if rc:
                status = "compile-fail"
        elif so_dirty:
            open(p, "w", newline="").write(orig)
            build_ext()
            so_dirty = False
            open(p, "w", newline="").write("\n".join(lines))
        if status is None:
            # the pinned suite: 118 pass, 4 known failures
            rc, out = sh(["/venv/bin/python", "-m", "pytest", "-q", "-p", "no:cacheprovider", "--timeout=300"],
                         cwd=wt, env=env, timeout=900)
            tail = out.strip().split("\n")[-1] if out.strip() else ""
            rec["tests"] = tail
            if "118 passed" not in tail or "4 failed" not in tail:
                status = "tests-fail"
        if status is None:
            rec["checks"] = {}
            for c in a.checks:
                rc, out = sh(["timeout", "-k", "10", "1500", "/venv/bin/python", "-m", "rdsim", "check", c, "--no-evidence",
                              "--no-shrink"], cwd="/verif", env=cenv, timeout=1600)
                last = out.strip().split("\n")[-1][:160] if out.strip() else ""
                viol = [l for l in out.split("\n") if l.startswith("VIOLATION")]
                orc = [l.strip()[:150] for l in out.split("\n") if "oracle=" in l][:2]
                rec["checks"][c] = {"rc": rc, "violations": len(viol), "oracles": orc, "last": last}
                if rc != 0 and viol:
                    status = "caught"
                    rec["by"] = c
                    break
                if rc not in (0, 1):
                    rec.setdefault("odd", []).append([c, rc, out[-600:]])
            if status is None:
                status = "SURVIVED"
            shutil.rmtree(root + "/out", ignore_errors=True)
        rec["status"] = status
        rec["seconds"] = round(time.time() - t0, 1)
        open(p, "w", newline="").write(orig)
        with open(res_path, "a") as fh:
            fh.write(json.dumps(rec) + "\n")
        print("[%d/%d] %s:%d %s  %s -> %s  | %s%s  %.0fs" % (n + 1, len(chosen), os.path.basename(f), ln + 1, op,
              before.strip()[:60], new.strip()[:60], status, (" by " + rec["by"]) if "by" in rec else "",
              time.time() - t0), flush=True)
    subprocess.run(["git", "-C", "/repo", "worktree", "remove", "--force", wt], capture_output=True)
    shutil.rmtree(root, ignore_errors=True)
    return 0


if __name__ == "__main__":
    sys.exit(main())
