"""One-off script that inserted the verification hooks into /repo's engine.cpp (kept for the record).
The file uses CRLF line endings; edits are made byte-exact and add-only."""
import sys
p = sys.argv[1]
s = open(p, newline='').read()
assert '\r\n' in s
def crlf(t): return t.replace('\r\n', '\n').replace('\n', '\r\n')
def ins_after(s, anchor, text):
    anchor = crlf(anchor); text = crlf(text)
    assert s.count(anchor) == 1, anchor
    return s.replace(anchor, anchor + text)

s = ins_after(s, '''  extern "C" PyObject * PyInit_engine()
    {
    return NULL;
    }
#endif
''', '''
// ---------------------------------------------------------------------------------------
// verification hooks. They are inert unless the environment variable STRENGTHS_VERIF is "1"
// at the time a hook is installed: a normal build/run behaves exactly as without them.
#include <cstdlib>
#include <cstring>
typedef long long (*verif_clock_fn)();
static verif_clock_fn verif_clock = NULL;   // virtual millisecond clock used by engineexport_run
static long long verif_loop_cap = 0;        // max passes of the redistribution correction loop (0 = unbounded)
static long long verif_loop_count = 0;      // passes used by the last set-up
static int verif_status = 0;                // bit 0 : the correction loop hit verif_loop_cap

static bool VerifEnabled()
  {
  const char * e = std::getenv("STRENGTHS_VERIF");
  return (e != NULL && std::strcmp(e, "1") == 0);
  }

extern "C" int engineexport_verif_set_clock(verif_clock_fn f)
  {
  if(!VerifEnabled()) return 1;
  verif_clock = f;
  return 0;
  }

extern "C" int engineexport_verif_set_loopcap(long long cap)
  {
  if(!VerifEnabled()) return 1;
  verif_loop_cap = cap;
  return 0;
  }

extern "C" int engineexport_verif_status()
  {
  return verif_status;
  }

extern "C" long long engineexport_verif_loopcount()
  {
  return verif_loop_count;
  }
// ---------------------------------------------------------------------------------------
''')

s = ins_after(s, '''  std::mt19937 rng(seed);
  std::uniform_real_distribution<double> uiud(0, 1);
''', '''  verif_loop_count = 0; verif_status &= ~1; // verification hook
''')

s = ins_after(s, '''    for(;;)
      {
''', '''      if(verif_loop_cap > 0 && ++verif_loop_count > verif_loop_cap) {verif_status |= 1; break;} // verification hook
''')

s = ins_after(s, '''    auto t0 = std::chrono::system_clock::now();
''', '''    long long verif_t0 = (verif_clock != NULL) ? verif_clock() : 0; // verification hook
''')

s = ins_after(s, '''        int dt = static_cast<int>(std::chrono::duration_cast<std::chrono::milliseconds>(std::chrono::system_clock::now() - t0).count());
''', '''        if(verif_clock != NULL) dt = static_cast<int>(verif_clock() - verif_t0); // verification hook
''')
open(p, 'w', newline='').write(s)
