#!/bin/bash
# usage: mutant.sh <name> <python-expr-file or '-'> -- <check args...>
# creates a scratch worktree of /repo under /tmp, applies a python edit script to it, runs a check against it, removes it.
set -u
name=$1; edit=$2; shift 2; [ "$1" = "--" ] && shift
dir=/tmp/mut-$name
git -C /repo worktree remove --force $dir >/dev/null 2>&1
git -C /repo worktree add --detach $dir HEAD >/dev/null 2>&1 || { echo "worktree failed"; exit 3; }
( cd $dir && /venv/bin/python $edit ) || { echo "edit failed"; git -C /repo worktree remove --force $dir; exit 3; }
( cd $dir && git diff --stat | cat )
RDSIM_REPO=$dir RDSIM_VERIF=/tmp/mutout-$name timeout -k 10 1800 /venv/bin/python -m rdsim check "$@" --no-evidence 2>&1 | grep -v '^    File' | cut -c1-400 | tail -${TAIL:-12}
rc=${PIPESTATUS[0]}
git -C /repo worktree remove --force $dir
rm -rf /tmp/mutout-$name
exit $rc
